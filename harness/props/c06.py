from props import codec


def run(ctx, model):
    codec.run(ctx, model, "C06")
    # the identity objects (named in the statement) as codecs: boundary serial numbers and revisions, every name length
    from props import c16
    rng = ctx.rng
    cases = [c16.gen_fields(rng, namelen=n) for n in range(0, 256, 5)] + [c16.gen_fields(rng) for _ in range(ctx.budget(150, 1500))]
    for serial in (0, 1, 0xF, 0x10, 0xFFF, 0xFFFFFF, 0x0FFFFFFF, 0x10000000, 0x7FFFFFFF, 0x80000000, 0xFFFFFFFF, 0x00C0FFEE):
        f = c16.gen_fields(rng)
        f["serial"] = serial
        cases.append(f)
    c16.codec_level(ctx, model, cases)


def replay(ctx, model, data):
    return codec.replay(ctx, model, data, "C06")
