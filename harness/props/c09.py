"""C09 — emitted CIP paths denote the addressed object."""
import core
import sx
import refpath

LTYPES = ["class_id", "instance_id", "member_id", "connection_point", "attribute_id", "special", "service_id"]


def lval_sx(v):
    return "(i %d)" % v if isinstance(v, int) else sx.hexb(v)


def call(fn, *a, **kw):
    try:
        r = core.with_budget(5, fn, *a, **kw)
    except BaseException as e:  # noqa
        if isinstance(e, (KeyboardInterrupt, SystemExit)):
            raise
        return "err " + core.exn_class(e)
    if r is None:
        return "ok N"
    return "ok " + sx.hexb(r)


def ok_bytes(r):
    return bytes.fromhex(r[6:-1]) if r.startswith("ok (b ") and len(r) > 7 else (b"" if r == "ok (b)" else None)


def gen_tag(rng):
    """(tag string, intent) from the documented syntax; intent = list of ('symbol', name) / ('member', idx)"""
    def ident():
        n = rng.choice([1, 2, 3, 4, 5, 8, 9, 20, 39, 40])
        first = rng.choice("ABCDEFGHIJKLMNOPQRSTUVWXYZabcdefghijklmnopqrstuvwxyz_")
        return first + "".join(rng.choice("ABCDEFGHIJKLMNOPQRSTUVWXYZabcdefghijklmnopqrstuvwxyz_0123456789") for _ in range(n - 1))
    parts, intent = [], []
    if rng.random() < 0.25:
        p = "Program:" + ident()
        parts.append(p)
        intent.append(("symbol", p.encode()))
    for lvl in range(rng.choice([1, 1, 2, 2, 3, 4])):
        name = ident()
        intent.append(("symbol", name.encode()))
        nidx = rng.choice([0, 0, 1, 1, 2, 3])
        if nidx:
            idx = [rng.choice([0, 1, 2, 31, 32, 255, 256, 65535, 65536, 100000, rng.randint(0, 2 ** 31)]) for _ in range(nidx)]
            name += "[" + ",".join(str(i) for i in idx) + "]"
            intent += [("member", i) for i in idx]
        parts.append(name)
    return ".".join(parts), intent


def run(ctx, model):
    # route paths a driver emits after other calls still denote the configured route (stateful, driver level)
    from props import c14 as _c14
    from props import transcripts as _tr
    _lines, _pend = [], []
    _c14.run_route_after(ctx, model, _lines, _pend, "C09",
                         [("10.0.0.1/bp/0", [(1, 0)]), ("10.0.0.1/bp/1/enet/10.11.12.13/bp/0", [(1, 1), (2, "10.11.12.13"), (1, 0)]), ("10.0.0.1", [])])
    # the routes of drivers created AFTER another driver of this process has been opened against a Micro800 (whose open()
    # takes the backplane hop off ITS route): a bare address still means backplane slot 0
    try:
        import logixgen as _lg
        from props import logix as _lx
        _p = _lg.gen_project(ctx.rng, n_templates=0, n_tags=2)
        _p["micro800"] = True
        _s = _lx.Session(model, _p)
        _s.close()
        _c14.run_route_after(ctx, model, _lines, _pend, "C09", [("10.0.0.1", [(1, 0)]), ("10.0.0.1/2", [(1, 2)])], auto=True, extra=False)
    except ImportError:
        pass
    _tr.flush(ctx, model, _lines, _pend)
    import pycomm3
    from pycomm3.cip import data_types as dt
    from pycomm3.packets.util import request_path, tag_request_path
    rng = ctx.rng
    lines, pend = [], []

    def ask(stream, line, impl, case):
        lines.append(line)
        pend.append((stream, case, impl))

    # ---- logical segments: all values < 2^16 (stride in quick), boundaries, random 32 bit, invalid
    stride = ctx.budget(17, 1)
    vals = list(range(0, 65536 + 3, stride)) + [255, 256, 257, 65535, 65536, 65537, 2 ** 24, 2 ** 31, 2 ** 32 - 1, 2 ** 32, 2 ** 40, -1]
    vals += [rng.getrandbits(32) for _ in range(ctx.budget(300, 5000))]
    for v in vals:
        for t in (LTYPES if (v % 1024 < 3 or v > 65535 or stride == 1 and v % 64 == 0) else [rng.choice(LTYPES)]):
            for padded in (True, False):
                seg = dt.LogicalSegment(v, t)
                r = call(seg.encode, seg, padded)
                ctx.case("logical", ("lg", v, t, padded))
                ask("logical", "path.seg (lg %s %s) %s" % (lval_sx(v), sx.name(t), "T" if padded else "F"), r, (v, t, padded))
                if 0 <= v < 2 ** 32:
                    b = ok_bytes(r)
                    if b is None:
                        ctx.violation("logical-valid-value-rejected", {"kind": "logical", "value": v, "type": t, "padded": padded}, r)
                    elif padded:
                        try:
                            got = refpath.parse_padded(b)
                        except refpath.BadPath as e:
                            got = "malformed: %s" % e
                        if got != [("logical", t, v)] or len(b) % 2:
                            ctx.violation("logical-wrong-bytes", {"kind": "logical", "value": v, "type": t, "padded": padded},
                                          "bytes %s parse to %r" % (b.hex(), got))
                elif not r.startswith("err data"):
                    ctx.violation("logical-out-of-range-accepted", {"kind": "logical", "value": v, "type": t, "padded": padded}, r)
    for bs in [b"", b"\x01", b"\x01\x02", b"\x01\x02\x03", b"\x01\x02\x03\x04", b"12345"]:
        for t in LTYPES + ["bogus"]:
            seg = dt.LogicalSegment(bs, t)
            r = call(seg.encode, seg, True)
            ctx.case("logical", ("lgb", bs, t))
            ask("logical", "path.seg (lg %s %s) T" % (lval_sx(bs), sx.name(t)), r, (bs, t))
    ctx.extra["exhaustive_subdomains"] = "logical values 0..65538 with stride %d x padded/packed; all port names x links 0..255" % stride

    # ---- port segments
    ports = list(dt.PortSegment.port_segments) + list(range(0, 18)) + [255, 256, -1, "BP", "nope", ""]
    links = list(range(0, 256, ctx.budget(5, 1))) + [255, 256, 1000, -1, "0", "7", "255", "256", "007", "1.2.3.4", "10.11.12.13",
                                                     "192.168.100.200", "1.2.3", "1.2.3.256", "a", "", "١", b"", b"\x05", b"\x01\x02", b"abc"]
    for p in ports:
        for l in (links if isinstance(p, str) or 1 <= p <= 3 else links[::7] + links[-20:]):
            seg = dt.PortSegment(p, l)
            r = call(seg.encode, seg, True)
            ctx.case("port", ("pt", repr(p), repr(l)))
            psx = "(i %d)" % p if isinstance(p, int) else sx.name(p)
            lsx = "(i %d)" % l if isinstance(l, int) else (sx.name(l) if isinstance(l, str) else sx.hexb(l))
            if isinstance(l, str) and not l.isascii():
                continue
            ask("port", "path.seg (pt %s %s) T" % (psx, lsx), r, (p, l))
            pnum = dt.PortSegment.port_segments.get(p) if isinstance(p, str) else p
            valid_port = isinstance(pnum, int) and 1 <= pnum <= 14
            valid_link = (isinstance(l, int) and 0 <= l <= 255) or (isinstance(l, str) and l.isascii() and (
                (l.isdigit() and int(l) <= 255) or _is_ipv4(l)))
            if valid_port and valid_link:
                lk = l if isinstance(l, int) else (int(l) if l.isdigit() else l)
                want = refpath.ref_port_segment(pnum, lk)
                b = ok_bytes(r)
                if b != want:
                    ctx.violation("port-wrong-bytes", {"kind": "port", "port": p, "link": l}, "expected %s got %s" % (want.hex(), r))
            elif (isinstance(p, str) and pnum is None) or (isinstance(l, int) and not 0 <= l <= 255) or (
                    isinstance(l, str) and l.isascii() and not valid_link):
                if not r.startswith("err data"):
                    ctx.violation("port-invalid-accepted", {"kind": "port", "port": p, "link": l}, r)

    # ---- symbolic segments and whole paths
    for n in list(range(0, 40)) + [254, 255, 256, 300]:
        name = "".join(rng.choice("abcXYZ_019") for _ in range(n))
        seg = dt.DataSegment(name)
        r = call(seg.encode, seg, True)
        ctx.case("symbol", ("ds", name))
        ask("symbol", "path.seg (ds %s) T" % sx.name(name), r, name)
        b = ok_bytes(r)
        if n <= 255:
            try:
                got = refpath.parse_padded(b) if b is not None else None
            except refpath.BadPath as e:
                got = str(e)
            if got != [("symbol", name.encode())]:
                ctx.violation("symbol-wrong-bytes", {"kind": "symbol", "name": name}, "%s -> %r" % (r, got))
        elif not r.startswith("err data"):
            ctx.violation("symbol-too-long-accepted", {"kind": "symbol", "name": name}, r)
    # ---- request_path(class, instance, attribute)
    cands = [0, 1, 2, 0x6b, 255, 256, 65535, 65536, 2 ** 32 - 1, b"\x01", b"\x6b", b"\x01\x02", b"\x00\x01\x00\x00", b""]
    for _ in range(ctx.budget(400, 4000)):
        # instance 0 (class-level attributes) and class 0 are ordinary ids: 0 must not be mistaken for 'absent'
        c, i, a = rng.choice(cands[:-1]), rng.choice(cands[:-1] + [0, b"\x00"]), rng.choice(cands + [b"", b"", 0])
        if rng.random() < 0.3:
            i = rng.getrandbits(rng.choice([8, 16, 32]))
        r = call(request_path, c, i, a)
        ctx.case("request_path", ("rp", repr(c), repr(i), repr(a)))
        ask("request_path", "path.req %s %s %s" % (lval_sx(c), lval_sx(i), lval_sx(a)), r, (c, i, a))
        b = ok_bytes(r)
        as_int = lambda x: x if isinstance(x, int) else int.from_bytes(x, "little")  # noqa
        sizes_ok = all(isinstance(x, int) or len(x) in (1, 2, 4) for x in (c, i) + ((a,) if a else ()))
        if sizes_ok:
            want = [("logical", "class_id", as_int(c)), ("logical", "instance_id", as_int(i))]
            if a:
                want.append(("logical", "attribute_id", as_int(a)))
            try:
                got, rest = refpath.parse_request_path(b) if b is not None else (None, None)
            except refpath.BadPath as e:
                got, rest = str(e), None
            # a bytes value keeps its width: compare values only
            if got is None or isinstance(got, str) or [(k, t, v) for (k, t, v) in got] != want or rest != b"":
                ctx.violation("request-path-wrong", {"kind": "reqpath", "class": c, "instance": i, "attribute": a},
                              "%s parses to %r, wanted %r" % (r, got, want))
    # ---- tag paths
    again = []
    for _ in range(ctx.budget(1500, 15000)):
        if again:
            # the same request string again, for another symbol instance / addressing mode (another controller, or the
            # same one after a download): the path is a function of its arguments, not of what was asked before
            tag, intent, inst, use_ids = again.pop()
        else:
            tag, intent = gen_tag(rng)
            use_ids = rng.random() < 0.5
            inst = rng.choice([0, 0, 1, 77, 300, 70000])
            if rng.random() < 0.25:
                again.append((tag, intent, rng.choice([2, 0x12, 0x2F, 256, 65536, 0]), rng.random() < 0.7))
        info = {"instance_id": inst} if inst else {}
        r = call(tag_request_path, tag, info, use_ids)
        ctx.case("tag_path", ("tag", tag, inst, use_ids))
        if len(ctx.samples) < 4:
            ctx.sample({"tag": tag, "instance_id": inst, "use_instance_ids": use_ids, "path": r})
        ask("tag_path", "path.tag %s %d %s" % (sx.name(tag), inst, "T" if use_ids else "F"), r, (tag, inst, use_ids))
        want = []
        first = True
        for kind, v in intent:
            if first and kind == "symbol" and use_ids and inst and not tag.startswith("Program:"):
                want += [("logical", "class_id", 0x6B), ("logical", "instance_id", inst)]
            elif kind == "symbol":
                want.append(("symbol", v))
            else:
                want.append(("logical", "member_id", v))
            first = False
        b = ok_bytes(r)
        try:
            got, rest = refpath.parse_request_path(b) if b is not None else (None, None)
        except refpath.BadPath as e:
            got, rest = str(e), None
        if got != want or rest != b"":
            ctx.violation("tag-path-wrong", {"kind": "tag", "tag": tag, "instance_id": inst, "use_ids": use_ids},
                          "%s parses to %r, wanted %r" % (r, got, want))
    # malformed tags: correspondence only (what escapes is not part of C09)
    for tag in ["", ".", "a.", ".a", "a[", "a]", "[", "a[]", "a[x]", "a[1,]", "a[1][2]", "a[ 1 ]", "a[-1]", "a[1_0]", "a..b", "a[1.b",
                "Program:", "Program:P", "Program:P.t[3]", "x" * 256, "a[" + "9" * 30 + "]"]:
        r = call(tag_request_path, tag, {"instance_id": 5}, True)
        ctx.case("tag_path_malformed", ("tagm", tag))
        ask("tag_path_malformed", "path.tag %s 5 T" % sx.name(tag), r, tag)

    outs = model.batch(lines)
    for (stream, case, impl), out in zip(pend, outs):
        if core.norm_err(out) != core.norm_err(impl):
            ctx.mismatch(stream, {"case": repr(case)[:300]}, impl[:200], out[:200])
    run_session_paths(ctx, model)


def run_session_paths(ctx, model):
    """every request path a LogixDriver session puts on the wire — open() with its uploads (paged symbol lists per scope,
    template attribute and template reads), then reads and writes — parsed by the independent parser: each must be a
    well-formed padded EPATH; the paths of the symbol-list requests must be exactly [program name] + class 0x6B +
    instance, whatever page of the upload they ask for."""
    import logixgen as lg
    from props import logix as lx
    rng = ctx.rng
    for i in range(ctx.budget(12, 120)):
        p = lg.gen_project(rng)
        if not p.get("pages"):
            p["pages"] = [rng.choice([1, 2, 3])]          # make the symbol list span several replies
        sess = lx.Session(model, p, conn_large=rng.random() < 0.6, init_program_tags=rng.random() < 0.8)
        ctx.case("session-paths", ("sp", i))
        if sess.open_error is None:
            try:
                tags = [r[0] for r in (lx.gen_read(rng, p) for _ in range(6)) if r]
                if tags:
                    core.with_budget(60, sess.d.read, *tags)
            except BaseException as e:  # noqa
                if isinstance(e, (KeyboardInterrupt, SystemExit)):
                    raise
        n_list = 0
        for k, f in enumerate(sess.sock.frames):
            if len(f) < 44:
                continue
            if f[:2] == b"\x70\x00":
                mr = f[46:]
            elif f[:2] == b"\x6f\x00":
                mr = f[40:]
            else:
                continue
            if len(mr) < 2:
                continue
            svc = mr[0]
            case = {"index": i, "frame_index": k, "service": svc, "request": mr[:60].hex()}
            try:
                segs, rest = refpath.parse_request_path(mr[1:])
            except refpath.BadPath as e:
                ctx.violation("emitted-path-malformed", case, str(e))
                break
            ctx.count("session-paths/service/%#x" % svc)
            if svc == 0x55:
                n_list += 1
                body = [x for x in segs]
                if body and body[0][0] == "symbol":
                    body = body[1:]
                ok = len(body) == 2 and body[0] == ("logical", "class_id", 0x6B) and body[1][:2] == ("logical", "instance_id")
                if not ok:
                    ctx.violation("symbol-list-path-wrong", case, "parses to %r, wanted [program] + class 0x6B + instance" % (segs,))
                    break
        ctx.count("session-paths/symbol-list-requests", n_list)
        # bit reads of integer tags, one per call: the request path must name the WORD that was asked for — by its symbol
        # instance or by exactly its name (program scope first) — whatever digits the name ends in and whatever the bit
        # number is (`Flags10.0`, `Word3.3`, `Word3.13`: the bit suffix is taken off the request, nothing else is)
        if sess.open_error is None:
            ints = [(sym, pre) for (sym, pre) in lx.user_symbols(p, with_programs=sess.d._cfg.get("init_program_tags", True))
                    if sym.kind == "atomic" and sym.typ in ("SINT", "INT", "DINT", "USINT", "UINT", "UDINT") and not any(sym.dims)]
            for sym, pre in ints[:6]:
                width = 8 * lg.elem_size("atomic", sym.typ)
                digits = [int(ch) for ch in sym.name if ch.isdigit()]
                bits = sorted({b for b in digits + [10 + d for d in digits] + [0, 1] if b < width})[:5]
                for b in bits:
                    n0 = len(sess.sock.frames)
                    tag = "%s%s.%d" % (pre, sym.name, b)
                    try:
                        core.with_budget(60, sess.d.read, tag)
                    except BaseException as e:  # noqa
                        if isinstance(e, (KeyboardInterrupt, SystemExit)):
                            raise
                        continue
                    ctx.case("session-bit-paths", ("sbp", i, tag))
                    for f in sess.sock.frames[n0:]:
                        if f[:2] != b"\x70\x00" or len(f) < 48 or f[46] not in (0x4C, 0x52):
                            continue
                        case = {"index": i, "read": tag, "request": f[46:110].hex()}
                        try:
                            segs, _rest = refpath.parse_request_path(f[47:])
                        except refpath.BadPath as e:
                            ctx.violation("emitted-path-malformed", case, str(e))
                            break
                        parts = [x.encode() for x in ([pre[:-1]] if pre else []) + [sym.name]]
                        by_name = [("symbol", x) for x in parts]
                        by_inst = ([("symbol", parts[0])] if pre else []) + [("logical", "class_id", 0x6B), ("logical", "instance_id", sym.inst)]
                        if segs != by_name and segs != by_inst:
                            ctx.violation("bit-read-path-names-another-tag", case,
                                          "read(%r) sent the path %r; wanted %r or %r" % (tag, segs, by_name, by_inst))
                            break
        sess.close()


def _is_ipv4(s):
    parts = s.split(".")
    return len(parts) == 4 and all(p.isdigit() and len(p) <= 3 and int(p) <= 255 and (len(p) == 1 or p[0] != "0") for p in parts)


def replay(ctx, model, data):
    c = core.Ctx("C09", "quick", data.get("seed", 0))
    run(c, model)
    return any(v["sig"] == data["sig"] for v in c.violations)
