"""C15 — connection-path strings parse to the documented route."""
import core
import sx
import refpath

SEPS = ["/", "\\", ","]


def impl_conn(path, auto):
    """-> 'ok host port route' | 'err class' in the model's output format"""
    from pycomm3.cip_driver import parse_connection_path
    from pycomm3 import PADDED_EPATH
    try:
        ip, port, segs = core.with_budget(5, parse_connection_path, path, auto)
    except BaseException as e:  # noqa
        if isinstance(e, (KeyboardInterrupt, SystemExit)):
            raise
        return "err " + core.exn_class(e), None
    try:
        route = PADDED_EPATH.encode(segs, length=True)
        rs = sx.hexb(route)
    except BaseException as e:  # noqa
        route = None
        rs = "(err %s)" % core.exn_class(e)
    return "ok %s %s %s" % (sx.name(ip), "N" if port is None else str(port), rs), route


def gen_ast(rng):
    """(host, tcp port or None, hops [(port alias spelling list, port number, link)])"""
    host = rng.choice(["192.168.1.100", "10.0.0.1", "1.2.3.4", "plc-1", "my.host.example", "localhost"])
    port = rng.choice([None, None, None, 1, 2, 80, 44818, 65534, rng.randint(1, 65534)])
    hops = []
    by_num = {}
    # the aliases come from the documented grammar (refpath.DOCUMENTED_PORTS), not from the library's table: a name
    # that silently disappears from, or appears in, `PortSegment.port_segments` must show up as a difference
    for name, num in refpath.DOCUMENTED_PORTS.items():
        by_num.setdefault(num, []).append(name)
    for _ in range(rng.choice([0, 1, 1, 2, 3, 4])):
        num = rng.choice([1, 1, 2, 3, rng.randint(1, 14)])
        link = rng.choice([0, 1, 2, 16, 17, 99, 255, rng.randint(0, 255)]) if rng.random() < 0.7 else \
            ".".join(str(rng.choice([0, 1, 10, 192, 255, rng.randint(0, 255)])) for _ in range(4))
        hops.append((num, by_num.get(num, []), link))
    return host, port, hops


def render(rng, ast):
    host, port, hops = ast
    s = host + (":%d" % port if port is not None else "")
    for num, aliases, link in hops:
        spell = rng.choice(aliases + [str(num)]) if aliases else str(num)
        s += rng.choice(SEPS) + spell + rng.choice(SEPS) + str(link)
    return s


def corrupt(rng, s):
    """one single-character edit"""
    alphabet = "0123456789abcxyz./\\,:- "
    i = rng.randrange(len(s) + 1)
    r = rng.random()
    if r < 0.34 and s:
        i = min(i, len(s) - 1)
        return s[:i] + s[i + 1:]
    if r < 0.67:
        return s[:i] + rng.choice(alphabet) + s[i:]
    i = min(i, len(s) - 1)
    return s[:i] + rng.choice(alphabet) + s[i + 1:]


def run(ctx, model):
    rng = ctx.rng
    lines, pend = [], []

    def ask(stream, path, auto, impl):
        if not path.isascii():
            return
        lines.append("path.conn %s %s" % (sx.name(path), "T" if auto else "F"))
        pend.append((stream, path, auto, impl))

    n = ctx.budget(1500, 15000)
    for i in range(n):
        ast = gen_ast(rng)
        host, port, hops = ast
        want_route = refpath.ref_route([(num, l) for num, _, l in hops])
        first = None
        for _ in range(3):
            s = render(rng, ast)
            out, route = impl_conn(s, False)
            ctx.case("grammar", ("g", s))
            ask("grammar", s, False, out)
            if i < 3 and first is None:
                ctx.sample({"path": s, "result": out})
            want = "ok %s %s %s" % (sx.name(host), "N" if port is None else str(port), sx.hexb(want_route))
            if out != want:
                ctx.violation("grammar-path-wrong-result", {"path": s, "auto_slot": False},
                              "expected %s\n     got %s" % (want, out))
            if first is None:
                first = route
            elif route != first:
                ctx.violation("spellings-differ", {"path": s, "auto_slot": False}, "route bytes differ between spellings of one route")
        # shortcuts of the Logix/SLC drivers (auto_slot): bare address and address/slot
        if i % 5 == 0:
            slot = rng.choice([0, 1, 2, 7, 16, 255])
            for s, hops2 in ((host, [(1, 0)]), (host + rng.choice(SEPS) + str(slot), [(1, slot)])):
                out, route = impl_conn(s, True)
                ctx.case("auto-slot", ("a", s))
                ask("auto-slot", s, True, out)
                want = "ok %s N %s" % (sx.name(host), sx.hexb(refpath.ref_route(hops2)))
                if out != want:
                    ctx.violation("shortcut-wrong-result", {"path": s, "auto_slot": True}, "expected %s got %s" % (want, out))
        # rejection classes named by the property
        base = render(rng, ast)
        bad = []
        sep = rng.choice(SEPS)
        bad.append(("odd-segments", base + sep + rng.choice(["bp", "1", "backplane"]), "request"))
        if hops:
            bad.append(("unknown-port-name", host + sep + rng.choice(["bpx", "BP", "back plane", "ether"]) + sep + "1", "encode-data"))
            bad.append(("link-out-of-range", host + sep + "bp" + sep + rng.choice(["256", "300", "1000", "1.2.3", "1.2.3.4.5", "1.2.3.256", "abc", "-1"]), "encode-data"))
        bad.append(("bad-tcp-port", host + ":" + rng.choice(["0", "65535", "65536", "99999", "abc", "", "-5", "1.5"]) + (sep + "bp" + sep + "0" if rng.random() < 0.5 else ""), "request"))
        for cls, s, how in bad:
            out, route = impl_conn(s, False)
            ctx.case("reject-" + cls, ("r", s))
            ctx.count("reject/" + cls)
            ask("reject-" + cls, s, False, out)
            if how == "request":
                okk = out == "err request"
            else:
                okk = out.endswith("(err data)")
            if not okk or route is not None:
                ctx.violation("not-rejected:" + cls, {"path": s, "auto_slot": False}, "got %s" % out)
        # single-edit corruptions: model and implementation must agree (no theorem: C15 partial)
        for _ in range(2):
            s = corrupt(rng, base)
            auto = rng.random() < 0.3
            out, route = impl_conn(s, auto)
            ctx.case("single-edit", ("e", s, auto))
            ctx.count("single-edit/" + ("ok" if route is not None else out.split(" ")[1] if out.startswith("err") else "encode-error"))
            ask("single-edit", s, auto, out)
            if out.startswith("err") and out not in ("err request",):
                ctx.violation("parse-raises-non-request-error", {"path": s, "auto_slot": auto}, out)
    # every documented alias on its own, and the library's table must not know names outside the documented grammar
    from pycomm3.cip.data_types import PortSegment
    for name, num in refpath.DOCUMENTED_PORTS.items():
        for link in (0, 5, "10.0.0.9"):
            s = "10.0.0.1/%s/%s" % (name, link)
            out, route = impl_conn(s, False)
            ctx.case("alias-sweep", ("alias", name, link))
            ask("alias-sweep", s, False, out)
            want = "ok %s N %s" % (sx.name("10.0.0.1"), sx.hexb(refpath.ref_route([(num, link)])))
            if out != want:
                ctx.violation("grammar-path-wrong-result", {"path": s, "auto_slot": False}, "expected %s\n     got %s" % (want, out))
    for name in sorted(set(PortSegment.port_segments) - set(refpath.DOCUMENTED_PORTS)):
        ctx.case("alias-sweep", ("undocumented", name))
        ctx.violation("not-rejected:unknown-port-name", {"path": "10.0.0.1/%s/1" % name, "auto_slot": False},
                      "the port table knows %r, which the documented grammar does not" % name)

    # the same shortcuts again AFTER a LogixDriver has been opened against a Micro800 in this process: open() strips the
    # backplane hop from that driver's route and must not disturb what later paths parse to
    try:
        import logixgen as lg
        from props import logix as lx
        p = lg.gen_project(rng, n_templates=0, n_tags=2)
        p["micro800"] = True
        sess = lx.Session(model, p)
        sess.close()
        for s, hops2, auto in (("10.0.0.1", [(1, 0)], True), ("192.168.1.100", [(1, 0)], True), ("10.0.0.1/3", [(1, 3)], True),
                               ("10.0.0.1/bp/0", [(1, 0)], False)):
            out, route = impl_conn(s, auto)
            ctx.case("after-micro800", ("am", s, auto))
            ask("after-micro800", s, auto, out)
            want = "ok %s N %s" % (sx.name(s.split("/")[0]), sx.hexb(refpath.ref_route(hops2)))
            if out != want:
                ctx.violation("shortcut-wrong-result:after-micro800-session", {"path": s, "auto_slot": auto}, "expected %s got %s" % (want, out))
        from pycomm3 import LogixDriver, SLCDriver
        for cls in (LogixDriver, SLCDriver):
            d = cls("10.0.0.1")
            got = bytes(PortSegment.encode(d._cfg["cip_path"][-1])) if d._cfg["cip_path"] else b""
            ctx.case("after-micro800", ("ctor", cls.__name__))
            if got != refpath.ref_port_segment(1, 0):
                ctx.violation("shortcut-wrong-result:after-micro800-session", {"path": "10.0.0.1", "driver": cls.__name__},
                              "%s('10.0.0.1') after a Micro800 session routes through %s" % (cls.__name__, got.hex() or "nothing"))
    except ImportError:
        pass
    outs = model.batch(lines)
    for (stream, path, auto, impl), out in zip(pend, outs):
        if core.norm_err(out) != core.norm_err(impl):
            ctx.mismatch(stream, {"path": path, "auto": auto}, impl[:200], out[:200])


def replay(ctx, model, data):
    inp = data["input"]
    out, route = impl_conn(inp["path"], inp["auto_slot"])
    print("parse_connection_path(%r, %r) -> %s" % (inp["path"], inp["auto_slot"], out))
    sig = data["sig"]
    if sig.startswith("not-rejected"):
        return route is not None or not (out == "err request" or out.endswith("(err data)"))
    return True
