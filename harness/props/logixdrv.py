"""Transcript correspondence for LogixDriver.read / LogixDriver.write (lean/PycommModel/Logix/Driver.lean).

The REAL LogixDriver opens against the Lean reference controller (as props/logix.py `Session` does); a
Lean-side session (`ld.new`) is created on the same scenario: a fresh Lean target brought to the same state by
replaying the frames the real `open()` emitted, the driver state after `open()`, and the tag database computed
from the project by `Drv.tagDbOf`.  Then the same read / write calls run on both sides and are compared:
  (i)   the frames the client emitted, byte for byte,
  (ii)  the returned Tags (tag, value, type, error) canonically, or the class of the escaping exception,
  (iii) the final target memory / write log / event log / connection tables.
`run_tagdb` compares the tag database itself (canonically serialised) with the real driver's `tags`.
`run_open` compares `LogixDriver.open()` itself with `Opn.openLogixSt` (lean/PycommModel/Logix/Open.lean): the Lean side
creates its own target from the scenario and runs the whole open() on a fresh driver (`ld.open`); compared are the
frames, the outcome, the driver state, the tag database, `info`, the data-type names, the target's final state, and
then a few read / write calls for which the Lean side stands on its own `ld.open` state.

Development entry point:   python harness/props/logixdrv.py --n 200 --seed 1
"""
import os
import re
import sys

if __name__ == "__main__":
    sys.path.insert(0, os.path.dirname(os.path.dirname(os.path.abspath(__file__))))

import core
import sx
import fakesock
import logixgen as lg
from props import logix as lx
from props.c13 import canon_err

if core.REPO not in sys.path:
    sys.path.insert(0, core.REPO)


# ------------------------------------------------------------------ a pair of sessions

def counting(gen, box):
    """a generator (the packet classes test `isinstance(sequence, Generator)`) that remembers the last draw"""
    while True:
        v = next(gen)
        box["last"] = v
        yield v


class Pair:
    """the real driver on the interactive Lean target + the Lean driver on its own identical Lean target"""

    def __init__(self, model, scn, rev, micro800_name, program_tags=True):
        from pycomm3 import LogixDriver
        self.model, self.scn, self.rev, self.program_tags = model, scn, rev, program_tags
        r = model.ask("target.new " + scn)
        assert r == "ok", r
        self.d = LogixDriver("10.0.0.1", init_program_tags=program_tags)
        self.seqbox = {"last": 0}
        self.d._sequence = counting(self.d._sequence, self.seqbox)
        self.sock = fakesock.TargetSocket(model, {})
        self.d._sock = self.sock
        self.open_error = None
        try:
            core.with_budget(60, self.d.open)
        except BaseException as e:  # noqa
            if isinstance(e, (KeyboardInterrupt, SystemExit)):
                raise
            self.open_error = e
            return
        model.ask("target.log")            # the comparison of event logs starts after open()
        d = self.d
        self.ld_new = "ld.new %s (cfg (rev %d) (micro800 %s) (progtags %s) (session %d) (cid %s) (seq %d) (connsize %d) (extfo %s)) (pre %s)" % (
            scn, rev, _b(d._micro800), _b(program_tags), d._session, sx.hexb(d._target_cid), self.seqbox["last"] + 1,
            d._cfg["connection_size"], _b(d._cfg["extended forward open"]), " ".join(sx.hexb(f) for f in self.sock.frames))
        self.ld_status = model.ask(self.ld_new)

    def call(self, kind, args):
        """run one read / write on both sides -> (impl, model) dicts with result, frames"""
        before = len(self.sock.frames)
        try:
            if kind == "read":
                res = core.with_budget(60, self.d.read, *args)
            else:
                res = core.with_budget(120, self.d.write, *args)
            res = res if isinstance(res, list) else [res]
            impl_res = ("tags", [canon_tag(t) for t in res])
        except BaseException as e:  # noqa
            if isinstance(e, (KeyboardInterrupt, SystemExit)):
                raise
            impl_res = ("raise", norm_exn(core.exn_class(e)))
        impl = {"result": impl_res, "frames": [f.hex() for f in self.sock.frames[before:]]}
        if impl_res == ("raise", "hang"):
            # the budget of the harness ran out in the middle of the real call (tens of thousands of 1-byte fragments):
            # nothing to compare, and the two sides are no longer in the same state
            return impl, None, ""
        if kind == "read":
            line = "ld.read " + " ".join(sx.name(t) for t in args)
        else:
            line = "ld.write " + " ".join("(%s %s)" % (sx.name(t), sx.val(v)) for t, v in args)
        out = self.model.ask(line)
        return impl, parse_ld_result(out), line

    def final_state(self):
        """(impl, model) renderings of memory + write log, event log, connection tables"""
        m = self.model
        return ((m.ask("target.mem"), m.ask("target.log"), m.ask("target.state")),
                (m.ask("ld.mem"), m.ask("ld.log"), m.ask("ld.state")))

    def close(self):
        try:
            self.d.close()
        except Exception:  # noqa
            pass


def _b(x):
    return "T" if x else "F"


def norm_exn(text):
    return text


# ------------------------------------------------------------------ canonical forms

def canon_tag_err(e):
    if e is None:
        return ("none",)
    if e.startswith("Invalid tag request - "):
        m = re.match(r"(\w+)\(", e[len("Invalid tag request - "):])
        return ("invalid", m.group(1) if m else "?")
    c = canon_err(e)
    if c.startswith("(s"):
        return ("text", e)
    return (c,)


def canon_tag(t):
    try:
        v = sx.canon(t.value)
    except Exception:  # noqa
        v = ("unrenderable",)
    return (t.tag, v, t.type, canon_tag_err(t.error))


def _err_of_sx(x):
    if isinstance(x, str):
        return (x,)
    if x[0] == "s":
        return ("text", "".join(chr(int(c)) for c in x[1:]))
    if x[0] == "invalid":
        return ("invalid", x[1])
    return ("?", repr(x))


def parse_ld_result(out):
    """'ok (tags (tag NAME VAL TYPE ERR)…)|(raise exn) (frames …)' -> dict"""
    if not out.startswith("ok "):
        return {"result": ("model-error", out[:200]), "frames": []}
    items = sx.parse(out[3:])
    res, frames = items[0], items[1]
    if res[0] == "raise":
        r = ("raise", norm_exn(res[1]))
    else:
        tags = []
        for t in res[1:]:
            name = sx.to_py(t[1])
            typ = None if t[3] == "N" else sx.to_py(t[3])
            tags.append((name, sx.canon(sx.to_py(t[2])), typ, _err_of_sx(t[4])))
        r = ("tags", tags)
    return {"result": r, "frames": [f[1] if len(f) > 1 else "" for f in frames[1:]]}


# ------------------------------------------------------------------ the real tag database, canonically (same text as `ld.tags`)

INT_ATOMS = {"SINT": "sint", "INT": "int", "DINT": "dint", "LINT": "lint", "USINT": "usint", "UINT": "uint", "UDINT": "udint",
             "ULINT": "ulint"}


def ty_sx(cls, dt):
    """type_class -> the model's Ty text; `dt` = the data_type dict that belongs to this class level"""
    from pycomm3.cip import ArrayType, BitArrayType, StringDataType
    if isinstance(cls, type) and issubclass(cls, ArrayType):
        return "(arr (fixed %d) %s)" % (cls.length, ty_sx(cls.element_type, dt))
    name = cls.__name__
    if name == "BOOL":
        return "bool"
    if name in INT_ATOMS:
        return "(int %s)" % INT_ATOMS[name]
    if name == "REAL":
        return "real"
    if name == "LREAL":
        return "lreal"
    if name == "DWORD":
        return "(bits udint)"
    if name == "FixedSizeString":
        return "(fstr %d %s)" % (cls.size, INT_ATOMS[cls.len_type.__name__])
    if name == "StructTag":
        its = dt["internal_tags"]
        members = " ".join("(%s %s %d)" % (sx.name(m.name), ty_sx(type(m), its[m.name]["data_type"]), cls._offsets[m])
                           for m in cls.members)
        bits = " ".join("(%s %d %d)" % (sx.name(n), o, b) for n, (o, b) in cls.bits.items())
        priv = " ".join(sx.name(n) for n in its if n in cls.private)
        return "(stag %d (%s) (%s) (%s))" % (cls.size, members, bits, priv)
    raise sx.Unrenderable("type class %r" % (cls,))


def _opt(x):
    return "N" if x is None else str(x)


def info_sx(info, top):
    dt = info["data_type"]
    if info["tag_type"] == "struct":
        st = "(st %s (%s) %d %d %s (%s))" % (
            sx.name(dt["name"]), " ".join(sx.name(a) for a in dt["attributes"]), dt["template"]["structure_size"],
            dt["template"]["structure_handle"], _opt(dt.get("string")),
            " ".join("(%s %s)" % (sx.name(n), info_sx(i, False)) for n, i in dt["internal_tags"].items()))
    else:
        st = "N"
    if info.get("data_type_name") is None or info.get("type_class") is None:
        # the driver could not resolve the type (never the case for a project of the generator): rendered so that it differs
        return "(ti %s UNRESOLVED-TYPE)" % info.get("tag_type")
    return "(ti %s %s %s %d (%s) %s %s %s %s %s)" % (
        info["tag_type"], sx.name(info["data_type_name"]), ty_sx(info["type_class"], dt),
        info["dim"] if top else 0, " ".join(str(x) for x in info["dimensions"]) if top else "",
        _opt(info.get("instance_id")) if top else "N", _opt(info.get("offset")), _opt(info.get("bit")), _opt(info.get("array")), st)


def _info_sx_safe(i):
    """a definition the renderer cannot walk (a name of None, a missing key: never the case for a project of the generator)
    is rendered as a marker, so that it shows up as a difference instead of stopping the check"""
    try:
        return info_sx(i, True)
    except sx.Unrenderable:
        raise
    except (TypeError, KeyError, AttributeError, ValueError) as e:
        return "(ti MALFORMED-DEFINITION %s)" % type(e).__name__


def tags_sx(d):
    return "ok (cfg %s %s) (tags %s)" % (_b(d._cfg["use_instance_ids"]), _b(d._micro800),
                                         " ".join("(%s %s)" % (sx.name(n if isinstance(n, str) else repr(n)), _info_sx_safe(i)) for n, i in d.tags.items()))


# ------------------------------------------------------------------ scenario generation

def gen_setup(rng):
    p = lg.gen_project(rng)
    if rng.random() < 0.2:
        p["micro800"] = True
    large = rng.random() < 0.6
    prog = rng.random() < 0.85
    name = b"2080-LC50" if p.get("micro800") else b"1756-L83E/B"
    scn = fakesock.base_scenario(policy=(True, large, True), major=p["rev"], name=name) + " " + lg.scenario_sx(p)
    return p, scn, large, prog


def mutate_tag(rng, p, tag):
    """a malformed / unusual spelling derived from a valid request"""
    base = tag.split("{")[0]
    r = rng.random()
    if r < 0.10:
        return rng.choice(["nope", "NoSuchTag[1]", "x.y.z", "", ".", "Program:", "Program:Nope.tag", "Program:MainProgram",
                           "Program:MainProgram.nope", "tag0.", ".tag0", "a{1}", "a{", "}"])
    if r < 0.20:
        return base + rng.choice([".nope", ".nope.deeper", ".Val.nope", "..", ".x.y"])
    if r < 0.35:
        cnt = rng.choice(["0", "1", "2", "3", "31", "32", "33", "64", "200", "1000", "65535", "x", "", " 2 ", "1_0", "2}{3"])
        if rng.random() < 0.12:
            cnt = rng.choice(["65536", "70000", "-1", "-2", "-40"])                     # make read()/write() raise
        return base + "{%s}" % cnt
    if r < 0.50:
        # index games
        b = base.split("[")[0] if rng.random() < 0.7 else base
        idx = rng.choice(["[0]", "[1]", "[5]", "[31]", "[32]", "[63]", "[200]", "[100000]", "[0,0]", "[1,2]", "[0,0,0]", "[1,1,1,1]", "[ 1 ]"])
        if rng.random() < 0.12:
            idx = rng.choice(["[-1]", "[a]", "[]", "[1", "[1]]", "[1][2]", "[1.5]"])      # most of these make read()/write() raise
        return b + idx + rng.choice(["", "", "{2}", "{40}"])
    if r < 0.65:
        return base + "." + rng.choice(["0", "1", "7", "8", "15", "31", "32", "63", "64", "100", "007"])
    if r < 0.72:
        return base + rng.choice(["{2}", "{3}", "{5}", "{12}", "{130}"])
    if r < 0.80:
        # element count on top of whatever it was, plus a bit
        return base + rng.choice([".3{2}", "{2}.3", ".1.2", ".LEN", ".DATA", ".DATA[0]", ".DATA{3}"])
    if r < 0.88:
        return base.upper() if rng.random() < 0.5 else base.lower()
    return tag + rng.choice([" ", "x", "[", "{", "}", "]"])


def gen_walk(rng, p):
    """a path that walks the structure definitions: valid and nearly valid spellings that gen_read never makes
    (hidden host members, DWORD members with index / bit suffix, indices on scalars, arrays without index).
    -> (tag, kind, typ) of the addressed item as far as known (for choosing a value), or None"""
    syms = lx.user_symbols(p, True)
    if not syms:
        return None
    structs = [(s, pre) for s, pre in syms if s.kind == "struct"]
    s, pre = rng.choice(structs) if structs and rng.random() < 0.8 else rng.choice(syms)
    tag = pre + s.name
    nd = len([d for d in s.dims if d])
    if nd and rng.random() < 0.7:
        tag += lx._index_str(rng, s.dims)[0]
    kind, typ, arr = s.kind, s.typ, 0
    depth = 0
    while kind == "struct" and depth < 4 and rng.random() < 0.85:
        ms = typ.members
        if not ms:
            break
        m = rng.choice(ms)
        tag += "." + m["name"]
        kind, typ, arr = m["kind"], m["type"], m.get("array", 0)
        r = rng.random()
        if kind == "bool":
            break
        if arr and r < 0.6:
            tag += "[%d]" % rng.choice([0, arr - 1, rng.randrange(arr), arr, 31, 32, 33])
        elif arr and r < 0.7:
            tag += "[%d,%d]" % (rng.randrange(arr), 0)
        elif not arr and r < 0.15:
            tag += "[0]"
        depth += 1
    r = rng.random()
    if r < 0.25:
        tag += ".%d" % rng.choice([0, 1, 5, 7, 8, 15, 31, 32, 33, 63])
    elif r < 0.45:
        tag += "{%d}" % rng.choice([1, 2, 3, 12, 32, 33, 64])
    elif r < 0.5:
        tag += ".%d{%d}" % (rng.choice([0, 3]), rng.choice([1, 2]))
    return tag, kind, typ


def gen_read_call(rng, p, prog):
    """-> (tags, shapes)"""
    n = rng.choice([1, 1, 1, 2, 3, 5, 10, 25, 60])
    bad_rate = rng.choice([0.0, 0.0, 0.15, 0.5, 1.0])
    tags, shapes = [], []
    for _ in range(n):
        if rng.random() < 0.2:
            wk = gen_walk(rng, p)
            if wk is not None:
                tags.append(wk[0])
                shapes.append("walk")
                continue
        r = lx.gen_read(rng, p, with_programs=True)
        if r is None:
            tags.append("nope")
            shapes.append("bad")
            continue
        tag = r[0]
        if rng.random() < bad_rate:
            tag = mutate_tag(rng, p, tag)
            shapes.append("bad")
        else:
            shapes.append(r[3][0])
        tags.append(tag)
    if len(tags) > 1 and rng.random() < 0.3:
        k = rng.randrange(len(tags))
        tags.append(tags[k])
        shapes.append("dup")
    return tags, shapes


def bad_value(rng, v):
    r = rng.random()
    if r < 0.12:
        return None
    if r < 0.24:
        return "abc"
    if r < 0.34:
        return rng.choice([2 ** 40, -2 ** 40, 256, -129, 65536, 2 ** 64, 5.0, True, 3])
    if r < 0.44:
        return 1.5
    if r < 0.54:
        return rng.choice([[], [1], [1, 2, 3], (1, 2), [True] * 31, [True] * 33, [[1]]])
    if r < 0.62:
        return bytes(rng.getrandbits(8) for _ in range(rng.choice([0, 1, 2, 4, 8, 88])))
    if r < 0.70:
        return {}
    if r < 0.80 and isinstance(v, dict) and v:
        v = dict(v)
        k = rng.choice(list(v))
        if rng.random() < 0.5:
            del v[k]
        else:
            v[k] = "zz"
        return v
    if r < 0.90 and isinstance(v, list) and v:
        return v[:-1] if rng.random() < 0.5 else v + v
    if isinstance(v, list):
        return tuple(v)
    if isinstance(v, bool):
        return rng.choice([0, 1, 2, "x", None, [], [0]])
    return rng.choice([True, False, "", b"\x01\x02\x03\x04"])


def gen_write_call(rng, p, prog):
    from props import c02
    n = rng.choice([1, 1, 1, 2, 3, 5, 12, 30])
    bad_rate = rng.choice([0.0, 0.0, 0.15, 0.5, 1.0])
    reqs, shapes = [], []
    for _ in range(n):
        if rng.random() < 0.2:
            wk = gen_walk(rng, p)
            if wk is not None:
                tag, kind, typ = wk
                r = rng.random()
                if kind == "bool" or (r < 0.3 and "{" not in tag):
                    v = rng.choice([True, False, 1, 0])
                elif kind in ("atomic", "struct") and r < 0.8:
                    v = c02.new_value(rng, kind, typ)
                    if "{" in tag and rng.random() < 0.8:
                        v = [c02.new_value(rng, kind, typ) for _ in range(int(tag.split("{")[1][:-1]))]
                    if kind == "struct" and rng.random() < 0.15:
                        v = bytes(rng.getrandbits(8) for _ in range(rng.choice([typ.size, typ.size, typ.size - 1, 4])))
                else:
                    v = bad_value(rng, 0)
                reqs.append((tag, v))
                shapes.append("walk")
                continue
        w = c02.gen_write(rng, p)
        if w is None:
            r = lx.gen_read(rng, p)
            if r is None:
                reqs.append(("nope", 1))
                shapes.append("bad")
                continue
            # something readable but not regularly writable (DWORD member, unindexed BOOL array)
            w = (r[0], rng.choice([True, 0, [True] * 32, 5]), ("odd",))
        tag, v, desc = w
        shape = desc[0]
        x = rng.random()
        if x < bad_rate / 2:
            tag = mutate_tag(rng, p, tag)
            shape = "bad"
        elif x < bad_rate:
            v = bad_value(rng, v)
            shape = "badvalue"
        elif shape == "boolarr" and rng.random() < 0.3:
            # unaligned / odd-length BOOL array writes
            i = rng.choice([0, 1, 31, 32, 33, 64])
            k = rng.choice([1, 2, 31, 32, 33, 64])
            tag = "%s[%d]{%d}" % (tag.split("[")[0].split("{")[0], i, k)
            v = [rng.random() < 0.5 for _ in range(rng.choice([k, k, 32, max(k - 1, 0)]))]
            shape = "boolarr-odd"
        reqs.append((tag, v))
        shapes.append(shape)
    # several bits of one word / one BOOL-array DWORD in one call
    if reqs and shapes[0] in ("bit", "boolarr") and rng.random() < 0.6 and "{" not in reqs[0][0]:
        t0 = reqs[0][0]
        if shapes[0] == "bit":
            base = t0.rsplit(".", 1)[0]
            for b in rng.sample(range(40), 3):
                reqs.append(("%s.%d" % (base, b), rng.random() < 0.5))
                shapes.append("bit")
        elif "[" in t0:
            base = t0.rsplit("[", 1)[0]
            for b in rng.sample(range(70), 3):
                reqs.append(("%s[%d]" % (base, b), rng.random() < 0.5))
                shapes.append("boolarr")
    if len(reqs) > 1 and rng.random() < 0.25:
        k = rng.randrange(len(reqs))
        reqs.append(reqs[k])
        shapes.append("dup")
    return reqs, shapes


def _renderable(v):
    try:
        sx.val(v)
        return True
    except sx.Unrenderable:
        return False


# ------------------------------------------------------------------ the streams

def _case(seed, i, scn, pair_cfg, calls):
    return {"seed": seed, "index": i, "config": pair_cfg, "calls": calls, "scenario": scn}


def _open_pair(ctx, model, rng, stream):
    p, scn, large, prog = gen_setup(rng)
    pair = Pair(model, scn, p["rev"], None, program_tags=prog)
    cfg = {"rev": p["rev"], "micro800": bool(p.get("micro800")), "large": large, "program_tags": prog}
    if pair.open_error is not None:
        ctx.count(stream + "/open-failed")
        pair.close()
        return None
    ctx.count(stream + "/conn/%d" % pair.d._cfg["connection_size"])
    ctx.count(stream + "/micro800/%s" % cfg["micro800"])
    ctx.count(stream + "/instance-ids/%s" % pair.d._cfg["use_instance_ids"])
    return p, scn, cfg, pair


def run_tagdb(ctx, model, focus):
    """the tag database of the model (Drv.tagDbOf) = the real driver's `tags` after a real open()"""
    rng = ctx.rng
    stream = "ld-tagdb"
    for i in range(ctx.budget(40, 400)):
        o = _open_pair(ctx, model, rng, stream)
        if o is None:
            continue
        p, scn, cfg, pair = o
        case = _case(ctx.seed, i, scn, cfg, [])
        ctx.case(stream, (stream, scn))
        if pair.ld_status != "ok":
            ctx.mismatch(stream, case, "open() succeeded", pair.ld_status)
            pair.close()
            continue
        try:
            want = tags_sx(pair.d)
        except sx.Unrenderable as e:
            ctx.unmodelled(stream)
            ctx.count(stream + "/unrenderable/" + str(e)[:30])
            pair.close()
            continue
        got = model.ask("ld.tags")
        if _norm(want) != _norm(got):
            wi, gi = _top(want), _top(got)
            diff = next(((a, b) for a, b in zip(wi, gi) if a != b), (want[-300:], got[-300:]))
            ctx.mismatch(stream, case, diff[0][:1500], diff[1][:1500])
        ctx.count(stream + "/tags", len(pair.d.tags))
        pair.close()


def run_reupload(ctx, model, focus):
    """histories of uploads on one driver: after open(), `get_tag_list` is called again with another scope (controller only,
    every program, one program).  After each call `tags` must be exactly the requested scope of the controller as the
    reference interpretation (`Drv.tagDbOf` of the project the target holds) gives it — nothing left over from an earlier,
    wider upload — and the returned list must have the same names."""
    rng = ctx.rng
    stream = "ld-reupload"
    for i in range(ctx.budget(25, 250)):
        o = _open_pair(ctx, model, rng, stream)
        if o is None:
            continue
        p, scn, cfg, pair = o
        if pair.ld_status != "ok":
            pair.close()
            continue
        ref = {}
        for prog in (False, True):
            out = model.ask("ld.tagdbof " + _b(prog))
            ref[prog] = None if not out.startswith("ok ") else _top(out)[1:]
        progs = [n for n, _ in p["programs"]]
        scopes = [None, "*"] + [n[len("Program:"):] for n in progs[:2]]
        done = []
        for step in range(rng.choice([2, 3, 4])):
            scope = rng.choice(scopes)
            done.append(scope)
            case = dict(_case(ctx.seed, i, scn, cfg, []), uploads=["open(init_program_tags=%s)" % cfg["program_tags"]] + ["get_tag_list(%r)" % x for x in done])
            ctx.case(stream, (stream, scn, tuple(map(str, done))))
            ctx.count("%s/scope/%s" % (stream, "one-program" if scope not in (None, "*") else scope))
            try:
                ret = core.with_budget(120, pair.d.get_tag_list, scope)
            except BaseException as e:  # noqa
                if isinstance(e, (KeyboardInterrupt, SystemExit)):
                    raise
                ctx.violation("get-tag-list-raises:" + core.exn_class(e), case, repr(e)[:200])
                break
            try:
                have = _top(tags_sx(pair.d))[1:]
            except sx.Unrenderable:
                ctx.unmodelled(stream)
                break
            if scope is None:
                want = ref[False]
            elif scope == "*":
                want = ref[True]
            else:
                pre = repr(sx.parse(sx.name("Program:%s." % scope))[0])[:-1]      # items are reprs of (name info): match the name prefix
                want = None if ref[True] is None else [t for t in ref[True] if t.startswith("[" + pre) or t.startswith("(" + pre)]
            if want is None:
                ctx.unmodelled(stream)
                break
            if sorted(have) != sorted(want):
                extra = [t for t in have if t not in want]
                missing = [t for t in want if t not in have]
                ctx.violation("tags-differ-from-requested-scope", case,
                              "%d tags, the controller's scope has %d; %d not in the scope (e.g. %s), %d missing (e.g. %s)" % (
                                  len(have), len(want), len(extra), (extra[0][:120] if extra else "-"), len(missing), (missing[0][:120] if missing else "-")))
                break
            names = sorted(t["tag_name"] for t in ret)
            if names != sorted(pair.d.tags):
                ctx.violation("returned-list-differs-from-tags", case, "%d returned, %d cached" % (len(names), len(pair.d.tags)))
                break
        pair.close()


def _norm(s):
    return s.replace(" )", ")").replace("( ", "(")


def _top(s):
    """the per-tag items of a tags rendering"""
    items = sx.parse(s[3:])
    return [repr(items[0])] + [repr(t) for t in items[1][1:]]


def compare_call(ctx, stream, case, impl, mod):
    ok = True
    if impl["frames"] != mod["frames"]:
        k = next((j for j, (a, b) in enumerate(zip(impl["frames"], mod["frames"])) if a != b), min(len(impl["frames"]), len(mod["frames"])))
        ctx.mismatch(stream, dict(case, field="frames", first_difference=k),
                     "%d frames; #%d: %s" % (len(impl["frames"]), k, (impl["frames"][k] if k < len(impl["frames"]) else "-")[:400]),
                     "%d frames; #%d: %s" % (len(mod["frames"]), k, (mod["frames"][k] if k < len(mod["frames"]) else "-")[:400]))
        ok = False
    ri, rm = impl["result"], mod["result"]
    if ri != rm:
        if ri[0] == "tags" and rm[0] == "tags":
            k = next((j for j, (a, b) in enumerate(zip(ri[1], rm[1])) if a != b), min(len(ri[1]), len(rm[1])))
            a = ri[1][k] if k < len(ri[1]) else "-"
            b = rm[1][k] if k < len(rm[1]) else "-"
            ctx.mismatch(stream, dict(case, field="result", first_difference=k), repr(a)[:600], repr(b)[:600])
        else:
            ctx.mismatch(stream, dict(case, field="result"), repr(ri)[:600], repr(rm)[:600])
        ok = False
    return ok


SERVICE_NAMES = {"4c": "read", "52": "read-fragmented", "4d": "write", "53": "write-fragmented", "4e": "read-modify-write",
                 "0a": "multi-service"}


def run_calls(ctx, model, focus, kind):
    rng = ctx.rng
    session_kind = kind
    stream = {"read": "ld-read", "write": "ld-write", "mixed": "ld-mixed"}[kind]
    wrote = {}
    n = ctx.budget(60, 600)
    for i in range(n):
        o = _open_pair(ctx, model, rng, stream)
        if o is None:
            continue
        p, scn, cfg, pair = o
        if pair.ld_status != "ok":
            ctx.case(stream, (stream, scn))
            ctx.mismatch(stream, _case(ctx.seed, i, scn, cfg, []), "open() succeeded", pair.ld_status)
            pair.close()
            continue
        calls = []
        ok = True
        last_write = None
        for c in range(rng.choice([1, 1, 2, 3]) if session_kind != "mixed" else rng.choice([2, 4, 6])):
            if session_kind == "mixed":
                kind = "write" if c % 2 == 0 else "read"
            if kind == "read":
                args, shapes = gen_read_call(rng, p, cfg["program_tags"])
                if session_kind == "mixed" and last_write:
                    # read back, with the very same request strings, what the previous call wrote
                    back = [t for t, _ in last_write]
                    args = back + list(args)[:3]
                    shapes = ["readback"] * len(back) + list(shapes)[:3]
                shown = list(args)
            else:
                args, shapes = gen_write_call(rng, p, cfg["program_tags"])
                args = [(t, v) for t, v in args if _renderable(v)]
                if session_kind == "mixed":
                    # one element beyond the first 32-bit word of every BOOL array the call does not touch otherwise:
                    # reads address such an array from word 0, writes address the word itself
                    used = {t.split("[")[0].split(".")[0].split("{")[0] for t, _ in args}
                    for sym in p["controller"]:
                        words = lx._count(sym.dims) if sym.kind == "atomic" and sym.typ == "DWORD" else 0
                        if words >= 2 and sym.name not in used and lx.is_user_symbol(sym):
                            idx = rng.randrange(32, 32 * words)
                            old_bit = bool(sym.mem[idx // 8] >> (idx % 8) & 1)
                            args.append(("%s[%d]" % (sym.name, idx), not old_bit))
                            shapes.append("boolarr-beyond-word0")
                shown = [(t, sx.val(v)) for t, v in args]
                last_write = args
            if not args:
                continue
            calls.append(shown)
            case = _case(ctx.seed, i, scn, cfg, calls)
            impl, mod, line = pair.call(kind, args)
            # C02 / C01: a value the driver reported written is what a read of the same request string returns
            if session_kind == "mixed" and kind == "write":
                wrote = {}
                if impl["result"][0] == "tags":
                    def base(t):
                        pre = ""
                        if t.startswith("Program:") and "." in t:
                            pre, t = t.split(".", 1)
                        return pre + "." + re.split(r"[.\[{]", t, 1)[0]
                    bases = [base(t) for t, _ in args]
                    for (t, v), tg in zip(args, impl["result"][1]):
                        # judged only when no other request of the call addresses the same symbol (overlaps have no defined result)
                        if bases.count(base(t)) == 1 and tg[3] == ("none",) and type(v) in (bool, int) and "{" not in t:
                            wrote[t] = v
            if session_kind == "mixed" and kind == "read" and last_write and impl["result"][0] == "tags":
                for t, tg in zip(args, impl["result"][1]):
                    if t in wrote and tg[3] == ("none",):
                        got = tg[1]
                        if isinstance(got, tuple) and len(got) == 2 and got[0] == "f":
                            import struct as _st
                            gv = _st.unpack("<d", _st.pack("<Q", got[1]))[0]
                        elif isinstance(got, tuple) and len(got) == 2 and got[0] in ("int", "bool"):
                            gv = got[1]
                        else:
                            continue                  # a structure / list / string came back: not judged here
                        if float(gv) != float(wrote[t]) and not (got[0] == "bool" and bool(gv) == bool(wrote[t])):
                            ctx.violation("read-after-write-differs", {"seed": ctx.seed, "index": i, "scenario": scn[:300], "config": cfg,
                                                                       "tag": t, "calls": calls[-2:]},
                                          "wrote %r to %r (reported written), a read of the same request returned %r" % (wrote[t], t, got))
            if mod is None:
                ctx.count("%s/budget-exceeded" % stream)
                ok = False
                break
            ctx.case(stream, (stream, scn, repr(shown)))
            for s in shapes:
                ctx.count("%s/shape/%s" % (stream, s))
            ctx.count("%s/requests" % stream, len(args))
            ctx.count("%s/frames" % stream, len(impl["frames"]))
            for f in impl["frames"]:
                ctx.count("%s/service/%s" % (stream, SERVICE_NAMES.get(f[92:94], f[92:94])))
            ctx.count("%s/outcome/%s" % (stream, impl["result"][0] if impl["result"][0] != "raise" else "raise:" + impl["result"][1]))
            if impl["result"][0] == "tags":
                for t in impl["result"][1]:
                    ctx.count("%s/tag/%s" % (stream, "ok" if t[3] == ("none",) else "error:" + t[3][0]))
            ok = compare_call(ctx, stream, dict(case, model_line=line[:3000]), impl, mod)
            # C03: a request that cannot succeed yields a falsy Tag, never an exception out of read()/write()
            if focus == "C03" and impl["result"][0] == "raise":
                cls = str(impl["result"][1])
                bad = [a for a, s_ in zip(shown, shapes)] if len(shapes) == len(shown) else shown
                ctx.violation("%s-raises:%s" % (kind, cls.split(":")[-1]),
                              {"seed": ctx.seed, "index": i, "scenario": scn[:300], "config": cfg, "call": shown[:12], "shapes": shapes[:12]},
                              "%s(%s) raised %s instead of returning one Tag per request" % (kind, ", ".join(map(str, shown[:6])), cls))
            if not ok or impl["result"][0] == "raise":
                break
        if ok:
            si, sm = pair.final_state()
            for name, a, b in zip(("memory", "log", "state"), si, sm):
                if _norm(a) != _norm(b):
                    k = next((j for j, (x, y) in enumerate(zip(a, b)) if x != y), 0)
                    ctx.mismatch(stream, dict(_case(ctx.seed, i, scn, cfg, calls), field="target-" + name),
                                 a[max(0, k - 200):k + 300], b[max(0, k - 200):k + 300])
        if i < 2 and calls:
            ctx.sample({"stream": stream, "calls": [c[:4] for c in calls][:2]})
        pair.close()


def run_reads(ctx, model, focus):
    run_calls(ctx, model, focus, "read")


def run_writes(ctx, model, focus):
    run_calls(ctx, model, focus, "write")


def run_mixed(ctx, model, focus):
    """sessions that alternate write and read calls, the reads repeating the request strings just written"""
    run_calls(ctx, model, focus, "mixed")


def alter_reply(rng, reply):
    """one alteration of a connected reply -> (description, bytes)"""
    import struct
    how = rng.choice(["status", "status", "status-ext", "encap", "encap", "cut", "cut", "cut-status", "flip", "empty-data", "service"])
    out = bytearray(reply)

    def relen(b):
        struct.pack_into("<H", b, 2, max(0, len(b) - 24))
        if len(b) >= 44:
            struct.pack_into("<H", b, 42, max(0, len(b) - 44))
        return bytes(b)
    if how == "status" and len(out) > 49:
        st = rng.choice([1, 4, 5, 6, 8, 0x10, 0x1E, 0x26, 0xFF])
        return "status %#x" % st, relen(out[:48] + bytes([st, 0]))
    if how == "status-ext" and len(out) > 49:
        st, ext = rng.choice([(0xFF, [0x2105]), (0xFF, [0x2107]), (1, [0x0100]), (4, [0]), (5, [1, 2])])
        return "status %#x ext %s" % (st, ext), relen(out[:48] + bytes([st, len(ext)]) + b"".join(struct.pack("<H", e) for e in ext))
    if how == "encap" and len(out) >= 12:
        st = rng.choice([1, 3, 0x64, 0x65, 0x69, 0x10000, 0x80000000])
        struct.pack_into("<I", out, 8, st)
        return "encapsulation status %#x" % st, bytes(out)
    if how == "cut":
        n = rng.choice([0, 2, 10, 12, 24, 40, 44, 46, 47, 48, 49, 50, 51, 52, rng.randint(0, max(0, len(out) - 1))])
        return "cut to %d bytes" % min(n, len(out)), relen(out[:n]) if n >= 4 else bytes(out[:n])
    if how == "cut-status" and len(out) > 52:
        n = rng.randint(50, len(out) - 1)
        return "cut to %d bytes" % n, relen(out[:n])
    if how == "flip" and out:
        i = rng.randrange(len(out))
        out[i] ^= 1 << rng.randrange(8)
        return "bit flipped in byte %d" % i, bytes(out)
    if how == "empty-data" and len(out) > 50:
        return "no data behind the status", relen(out[:50])
    if how == "service" and len(out) > 46:
        out[46] = rng.choice([0x4C, 0xCC, 0xD2, 0xCD, 0xD3, 0xCE, 0x8A, 0x00, 0xFF])
        return "reply service %#x" % out[46], bytes(out)
    return "unchanged", bytes(out)


def run_altered(ctx, model, focus):
    """read / write calls whose replies are scripted: the healthy call runs first (on both sides), then the same call is
    repeated with the transport's queue pre-loaded with the healthy replies of which one is altered (error status with
    or without extended status, non-zero encapsulation status, cut short, a flipped bit, another reply service).  The
    real driver and the Lean driver send their frames to identical targets and read the same scripted replies: Tags,
    exception classes and frames must agree; no call may raise a foreign exception."""
    rng = ctx.rng
    stream = "ld-altered"
    n = ctx.budget(40, 400)
    for i in range(n):
        o = _open_pair(ctx, model, rng, stream)
        if o is None:
            continue
        p, scn, cfg, pair = o
        if pair.ld_status != "ok":
            pair.close()
            continue
        kind = rng.choice(["read", "read", "write"])
        if kind == "read":
            args, shapes = gen_read_call(rng, p, cfg["program_tags"])
            shown = list(args)
        else:
            args, shapes = gen_write_call(rng, p, cfg["program_tags"])
            args = [(t, v) for t, v in args if _renderable(v)]
            shown = [(t, sx.val(v)) for t, v in args]
        if not args:
            pair.close()
            continue
        r0 = len(pair.sock.replies)
        impl, mod, line = pair.call(kind, args)
        if mod is None or not compare_call(ctx, stream, dict(_case(ctx.seed, i, scn, cfg, [shown]), model_line=line[:3000], phase="healthy"), impl, mod):
            pair.close()
            continue
        healthy = [r for r in pair.sock.replies[r0:]]
        if impl["result"][0] == "raise" or not healthy or any(x is None for x in healthy):
            pair.close()
            continue
        for rep in range(rng.choice([1, 2, 3])):
            k = rng.randrange(len(healthy))
            what, bad = alter_reply(rng, healthy[k])
            scripted = list(healthy)
            scripted[k] = bad
            if rng.random() < 0.15:
                scripted = scripted[:k + 1]          # and nothing scripted behind it: the target's own (stale) replies follow
            pair.sock.pending[:] = list(scripted)
            r = model.ask("ld.pending " + " ".join(sx.hexb(x) for x in scripted))
            assert r == "ok", r
            case = dict(_case(ctx.seed, i, scn, cfg, [shown]), altered_reply=k, of=len(healthy), alteration=what, scripted=[x.hex()[:400] for x in scripted][:6])
            impl, mod, line = pair.call(kind, args)
            pair.sock.pending[:] = []
            model.ask("ld.pending")
            ctx.case(stream, (stream, scn, repr(shown), k, what, rep))
            ctx.count("%s/alteration/%s" % (stream, what.split(" ")[0]))
            ctx.count("%s/kind/%s" % (stream, kind))
            if mod is None:
                ctx.count("%s/budget-exceeded" % stream)
                break
            ctx.count("%s/outcome/%s" % (stream, impl["result"][0] if impl["result"][0] != "raise" else "raise:" + str(impl["result"][1])))
            if impl["result"][0] == "tags":
                for t in impl["result"][1]:
                    ctx.count("%s/tag/%s" % (stream, "ok" if t[3] == ("none",) else "error"))
            if impl["result"][0] == "raise" and (str(impl["result"][1]).startswith("foreign") or impl["result"][1] == "hang") and focus in ("C13", "C03"):
                ctx.violation("public-call-raises-foreign:%s" % str(impl["result"][1]).split(":")[-1],
                              {k_: v_ for k_, v_ in case.items() if k_ != "scenario"}, "%s raised %s" % (kind, impl["result"][1]))
            if not compare_call(ctx, stream, dict(case, model_line=line[:3000]), impl, mod):
                break
            if impl["result"][0] == "raise":
                break
        pair.close()


# ------------------------------------------------------------------ LogixDriver.open() itself (Logix/Open.lean)

def faults_sx(faults):
    out = []
    for (kind, k), how in sorted(faults.items()):
        out.append("(%s %d)" % ("recvraise" if kind == "recv" else {"raise": "sendraise", "drop": "senddrop"}[how], k))
    return "(faults%s)" % "".join(" " + x for x in out)


class OpenPair(Pair):
    """the real `LogixDriver.open()` on the interactive Lean target + `ld.open` (the Lean model of open() on its own
    fresh Lean target); nothing of the Lean session comes from the real driver"""

    def __init__(self, model, scn, path, init_tags, program_tags, rnd, faults):
        import pycomm3.cip_driver as cd
        from pycomm3 import LogixDriver
        self.model, self.scn, self.program_tags = model, scn, program_tags
        r = model.ask("target.new " + scn)
        assert r == "ok", r
        self.d = LogixDriver(path, init_tags=init_tags, init_program_tags=program_tags)
        self.seqbox = {"last": 0}
        self.d._sequence = counting(self.d._sequence, self.seqbox)
        self.sock = fakesock.TargetSocket(model, dict(faults))
        self.d._sock = self.sock
        self.open_error = None
        buf = bytearray(rnd)

        def fake_urandom(n):
            out = bytes(buf[:n]) + b"\x00" * max(0, n - len(buf))
            del buf[:n]
            return out
        old = cd.urandom
        cd.urandom = fake_urandom
        try:
            ret = core.with_budget(120, self.d.open)
            self.impl_result = ("ok", bool(ret))
        except BaseException as e:  # noqa
            if isinstance(e, (KeyboardInterrupt, SystemExit)):
                raise
            self.open_error = e
            self.impl_result = ("raise", core.exn_class(e))
        finally:
            cd.urandom = old
        self.impl_frames = [f.hex() for f in self.sock.frames]
        self.ld_line = "ld.open %s (cfg (path %s) (inittags %s) (progtags %s) (rnd %s) %s)" % (
            scn, sx.name(path), _b(init_tags), _b(program_tags), sx.hexb(rnd), faults_sx(faults))
        self.ld_out = model.ask(self.ld_line)
        self.ld_status = "ok" if self.ld_out.startswith("ok ") else self.ld_out


def _names(xs):
    return " ".join(sx.name(x) for x in xs)


def impl_drv_sx(d, seqbox):
    from pycomm3.cip import PADDED_EPATH
    try:
        route = sx.hexb(PADDED_EPATH.encode(d._cfg["cip_path"], length=True, pad_length=True))
    except Exception:  # noqa
        route = "E"
    return "(drv (session %s) (opened %s) (connected %s) (cid %s) (extfo %s) (connsize %d) (seq %d) (route %s))" % (
        _opt(d._session), _b(d._connection_opened), _b(d._target_is_connected),
        "N" if d._target_cid is None else sx.hexb(d._target_cid), _b(d._cfg["extended forward open"]), d._cfg["connection_size"],
        seqbox["last"] + 1, route)


INFO_EXTRA = ("name", "programs", "tasks", "modules")


def impl_ldrv_sx(d):
    info = d._info
    plc = {k: v for k, v in info.items() if k not in INFO_EXTRA}
    progs = "N" if "programs" not in info else " ".join(
        "(%s %d (%s))" % (sx.name(n), v["instance_id"], _names(v["routines"])) for n, v in info["programs"].items())
    tasks = "N" if "tasks" not in info else " ".join("(%s %d)" % (sx.name(n), v["instance_id"]) for n, v in info["tasks"].items())

    def optnames(m, k):
        return "N" if k not in m else "(%s)" % _names(m[k])
    mods = "N" if "modules" not in info else " ".join(
        "(%s (slots %s) (types %s) (unknown %s))" % (
            sx.name(n), " ".join("(%d %s)" % (slot, _names(sv["types"])) for slot, sv in m["slots"].items()),
            optnames(m, "types"), optnames(m, "__UNKNOWN__")) for n, m in info["modules"].items())
    metas = " ".join("(%s %s %d %d %d %d %s %s %s)" % (
        sx.name(n), _b(t["alias"]), t["instance_id"], t["symbol_address"], t["symbol_object_address"], t["software_control"],
        sx.name(t["external_access"]), _opt(t.get("template_instance_id")), _opt(t.get("bit_position"))) for n, t in d._tags.items())
    return "(ldrv (micro800 %s) (useids %s) (cacheleft %s) (info %s (name %s) (programs %s) (tasks %s) (modules %s)) (datatypes %s) (metas %s))" % (
        _b(d._micro800), _b(d._cfg["use_instance_ids"]), _b(d._cache is not None), sx.val(plc),
        "N" if "name" not in info else sx.name(info["name"]), progs, tasks, mods, _names(d._data_types.keys()), metas)


def _sections(text):
    """'(head (k v…) (k v…) …)' -> {k: parsed item}"""
    item = sx.parse(text)[0]
    return {it[0] if isinstance(it, list) and it else repr(it): it for it in item[1:]}


def compare_open(ctx, stream, case, pair):
    """-> 'ok' | 'mismatch' | 'unmodelled'"""
    out = pair.ld_out
    if not out.startswith("ok "):
        ctx.mismatch(stream, dict(case, field="ld.open"), repr(pair.impl_result), out[:300])
        return "mismatch"
    items = sx.parse(out[3:])
    res, frames, drv, ldrv = items[0], items[1], items[2], items[3]
    mres = ("ok", res[1][1] == "T") if res[1][0] == "ok" else ("raise", res[1][1])
    if mres == ("raise", "foreign:Unmodelled"):
        ctx.unmodelled(stream)
        return "unmodelled"
    good = True
    mframes = [f[1] if len(f) > 1 else "" for f in frames[1:]]
    if pair.impl_frames != mframes:
        a, b = pair.impl_frames, mframes
        k = next((j for j, (x, y) in enumerate(zip(a, b)) if x != y), min(len(a), len(b)))
        ctx.mismatch(stream, dict(case, field="frames", first_difference=k),
                     "%d frames; #%d: %s" % (len(a), k, (a[k] if k < len(a) else "-")[:400]),
                     "%d frames; #%d: %s" % (len(b), k, (b[k] if k < len(b) else "-")[:400]))
        good = False
    if pair.impl_result != mres:
        ctx.mismatch(stream, dict(case, field="outcome"), repr(pair.impl_result), repr(mres))
        good = False
    # driver state
    want = _sections(impl_drv_sx(pair.d, pair.seqbox))
    got = {it[0]: it for it in drv[1:]}
    for k in want:
        if want[k] != got.get(k):
            ctx.mismatch(stream, dict(case, field="drv." + k), repr(want[k])[:300], repr(got.get(k))[:300])
            good = False
    try:
        want = _sections(impl_ldrv_sx(pair.d))
    except (sx.Unrenderable, KeyError, TypeError) as e:
        ctx.unmodelled(stream)
        ctx.count(stream + "/unrenderable/" + repr(e)[:30])
        return "unmodelled"
    got = {it[0]: it for it in ldrv[1:]}
    for k in want:
        if want[k] != got.get(k):
            w, g = want[k], got.get(k)
            if k in ("info", "metas") and isinstance(g, list):
                d_ = next(((x, y) for x, y in zip(w[1:], g[1:]) if x != y), (w[-1:], g[-1:]))
                w, g = d_
            ctx.mismatch(stream, dict(case, field="ldrv." + k), repr(w)[:600], repr(g)[:600])
            good = False
    # the tag database
    try:
        want = tags_sx(pair.d)
    except sx.Unrenderable as e:
        ctx.unmodelled(stream)
        ctx.count(stream + "/unrenderable/" + str(e)[:30])
        return "unmodelled"
    got = pair.model.ask("ld.tags")
    if _norm(want) != _norm(got):
        wi, gi = _top(want), _top(got)
        diff = next(((a, b) for a, b in zip(wi, gi) if a != b), (want[-300:], got[-300:]))
        ctx.mismatch(stream, dict(case, field="tags"), diff[0][:1500], diff[1][:1500])
        good = False
    return "ok" if good else "mismatch"


def compare_final_state(ctx, stream, case, pair):
    si, sm = pair.final_state()
    good = True
    for name, a, b in zip(("memory", "log", "state"), si, sm):
        if _norm(a) != _norm(b):
            k = next((j for j, (x, y) in enumerate(zip(a, b)) if x != y), 0)
            ctx.mismatch(stream, dict(case, field="target-" + name), a[max(0, k - 200):k + 300], b[max(0, k - 200):k + 300])
            good = False
    return good


OPEN_PATHS = ["10.0.0.1", "10.0.0.1", "10.0.0.1", "10.0.0.1/1", "10.0.0.1/3", "10.0.0.1/bp/2", "10.0.0.1/backplane/0",
              "192.168.1.10/bp/1/enet/10.0.0.2/bp/0", "10.0.0.1:44818/2", "10.0.0.1/1/5"]


def spice_project(rng, p):
    """symbols that exercise the bookkeeping of `_isolate_user_tags`: several module tags per module / slot, odd
    module spellings, routines / tasks / programs in the wrong scope"""
    ctl = p["controller"]
    inst = max([s.inst for s in ctl] + [s.inst for _, syms in p["programs"] for s in syms] + [0])

    def nxt():
        nonlocal inst
        inst += rng.choice([1, 2, 9])
        return inst
    if rng.random() < 0.35:
        for nm_ in rng.sample(["Local:1:I", "Local:1:O", "Local:1:C", "Local:2:I", "Local:07:O", "Rack:I", "Rack:O", "Rack:C", "Rack:3:x:S",
                               "Rack:x:I", "Enet:S", ":I"], rng.choice([1, 2, 4, 6])):
            if any(s.name == nm_ for s in ctl):
                continue
            ctl.append(lg.Symbol(nxt(), nm_, "atomic", "DINT", [0, 0, 0], lg.rand_mem(rng, "atomic", "DINT", 1), access=rng.choice([0, 2])))
    if rng.random() < 0.15:
        ctl.append(lg.Symbol(nxt(), rng.choice(["Routine:Orphan", "Task:T2", "Task:Task:X", "Map:Task:Y", "Cxn:Local:1:I"]), "system", 0x1068, [0, 0, 0], b""))
    if p["programs"] and rng.random() < 0.2:
        pn, syms = rng.choice(p["programs"])
        syms.append(lg.Symbol(nxt(), rng.choice(["Task:Inner", "Program:" + pn[len("Program:"):], "Routine:Late", "Local:4:I"]),
                              "system", 0x1068, [0, 0, 0], b""))
    if p["programs"] and rng.random() < 0.04:
        # a program symbol inside a program scope that names a NEW program: the dict `_info["programs"]` grows during its iteration
        pn, syms = rng.choice(p["programs"])
        syms.append(lg.Symbol(nxt(), "Program:Ghost", "system", 0x1068, [0, 0, 0], b""))
    if rng.random() < 0.04:
        # `name.replace("Program:", "")` removes every occurrence: the uploaded program name is not the controller's
        ctl.append(lg.Symbol(nxt(), rng.choice(["Program:AProgram:B", "Program:"]), "system", 0x1068, [0, 0, 0], b""))
    ctl.sort(key=lambda s: s.inst)
    if rng.random() < 0.15:
        # instance ids that need 16- / 32-bit logical segments (pagination continues at last instance + 1; instance addressing in reads)
        off = rng.choice([200, 65300, 65536, 70000, 2 ** 24])
        for s_ in ctl + [s_ for _, syms in p["programs"] for s_ in syms]:
            s_.inst += off


def gen_open_setup(rng):
    """-> project, scenario text, open configuration, what was varied"""
    p = lg.gen_project(rng)
    spice_project(rng, p)
    if rng.random() < 0.2:
        p["micro800"] = True
    r = rng.random()
    policy = (rng.random() >= 0.04, rng.random() < 0.6, rng.random() >= 0.08)
    id_major = p["rev"]
    how = []
    if rng.random() < 0.05:
        # the identity object and the symbol object disagree about the firmware: attribute 10 is asked of a controller without it
        id_major = rng.choice([18, 32]) if p["rev"] < 18 else 16
        how.append("rev-mismatch")
    shown = p
    if p["templates"] and rng.random() < 0.06:
        # a structure whose definition the controller does not have: a service error in the middle of the upload
        shown = dict(p, templates=[t for t in p["templates"] if t is not rng.choice(p["templates"])])
        how.append("dangling-template")
    name = b"2080-LC50" if p.get("micro800") else rng.choice([b"1756-L83E/B", b"1756-L83E/B", b"1769-L33ER", b"", b"2081-X"])
    scn = fakesock.base_scenario(policy=policy, major=id_major, name=name, plc_name=rng.choice([b"PLC_A", b"", b"Line 7"]),
                                 vendor=rng.choice([1, 1, 5, 0, 60000]), ptype=rng.choice([14, 14, 12, 0x2B, 999]),
                                 status=rng.choice([0x3060, 0x3060, 0x1060, 0x2070, 0x3170, 0x0000, 0x6030]),
                                 serial=rng.choice([0x00C0FFEE, 0, 0xFFFFFFFF, 0x12])) \
        + " " + lg.scenario_sx(shown)
    faults = {}
    if rng.random() < 0.14:
        k = rng.choice([0, 1, 2, 3, 4, 5, 6, 7, 8, 9, 10, 12, 15, 20, 30, 45])
        kind = rng.choice([("send", "raise"), ("send", "drop"), ("recv", "raise")])
        faults[(kind[0], k)] = kind[1]
        how.append("fault")
    cfg = {"path": rng.choice(OPEN_PATHS), "init_tags": rng.random() < 0.92, "program_tags": rng.random() < 0.8,
           "rnd": bytes(rng.getrandbits(8) for _ in range(8)).hex(), "faults": [[k[0], k[1], v] for k, v in faults.items()],
           "policy": list(policy), "rev": p["rev"], "identity_major": id_major, "micro800": bool(p.get("micro800")),
           "pages": p["pages"], "tmpl": p["tmpl"], "how": how}
    return p, scn, cfg


def open_pair_of(model, scn, cfg):
    faults = {(k, n): how for k, n, how in cfg["faults"]}
    return OpenPair(model, scn, cfg["path"], cfg["init_tags"], cfg["program_tags"], bytes.fromhex(cfg["rnd"]), faults)


def run_reconnect(ctx, model, focus):
    """one driver object across connections: open(), close(), the controller gets another project (an online edit or a
    download: same device, same program name), open() again — `tags` is the project that is in the controller NOW"""
    from pycomm3 import LogixDriver
    rng = ctx.rng
    stream = "ld-reconnect"
    for i in range(ctx.budget(10, 80)):
        p1 = lg.gen_project(rng)
        p2 = lg.gen_project(rng)
        p2["rev"] = p1["rev"]
        p2["micro800"] = p1.get("micro800")
        prog = rng.random() < 0.8
        d = LogixDriver("10.0.0.1", init_program_tags=prog)
        name = b"2080-LC50" if p1.get("micro800") else b"1756-L83E/B"
        ctx.case(stream, (stream, i))
        case = {"seed": ctx.seed, "index": i, "program_tags": prog, "history": "open, close, (project replaced), open"}
        try:
            for k, p in enumerate((p1, p2)):
                scn = fakesock.base_scenario(policy=(True, True, True), major=p["rev"], name=name) + " " + lg.scenario_sx(p)
                assert model.ask("target.new " + scn) == "ok"
                d._sock = fakesock.TargetSocket(model, {})
                core.with_budget(120, d.open)
                want = sorted(lx.expected_tags(p, prog))
                have = sorted(d.tags)
                if have != want:
                    extra = [t for t in have if t not in want][:3]
                    missing = [t for t in want if t not in have][:3]
                    ctx.violation("tags-of-an-earlier-connection" if k else "tags-differ-from-project", dict(case, connection=k),
                                  "%d tags, the controller has %d; not in the controller: %s; missing: %s" % (len(have), len(want), extra, missing))
                    break
                d.close()
        except BaseException as e:  # noqa
            if isinstance(e, (KeyboardInterrupt, SystemExit)):
                raise
            ctx.count("%s/raised/%s" % (stream, core.exn_class(e)))


def run_reupload_pair(ctx, model, focus):
    """`get_tag_list(None | '*')` again on an opened driver == `Opn.getTagList` on the Lean session `ld.open` made — first
    with the target's own replies (other scope than open() used), then with the healthy replies of that upload queued in
    both transports and one of them altered (status, encapsulation status, cut, flipped bit, other service): outcome,
    frames, driver state, info and the tag database must agree; nothing but library exceptions may escape."""
    rng = ctx.rng
    stream = "ld-reupload-pair"
    for i in range(ctx.budget(12, 120)):
        p, scn, cfg = gen_open_setup(rng)
        pair = open_pair_of(model, scn, cfg)
        if pair.impl_result != ("ok", True) or not pair.ld_out.startswith("ok (result (ok T))"):
            pair.close()
            continue
        steps = []
        healthy = {}
        for step in range(rng.choice([3, 4, 5])):
            scope = rng.choice([None, "*"])
            alter = scope in healthy and rng.random() < 0.85
            what = None
            if alter:
                reps = healthy[scope]
                k = rng.randrange(len(reps))
                what, bad = alter_reply(rng, reps[k])
                scripted = list(reps)
                scripted[k] = bad
                pair.sock.pending[:] = list(scripted)
                assert model.ask("ld.pending " + " ".join(sx.hexb(x) for x in scripted)) == "ok"
            steps.append("get_tag_list(%r)%s" % (scope, " with reply %d of %d altered: %s" % (k, len(reps), what) if alter else ""))
            before, r0 = len(pair.sock.frames), len(pair.sock.replies)
            try:
                core.with_budget(120, pair.d.get_tag_list, scope)
                pair.impl_result = ("ok", True)
            except BaseException as e:  # noqa
                if isinstance(e, (KeyboardInterrupt, SystemExit)):
                    raise
                pair.impl_result = ("raise", core.exn_class(e))
            pair.impl_frames = [f.hex() for f in pair.sock.frames[before:]]
            pair.ld_out = model.ask("ld.gettaglist " + _b(scope == "*"))
            pair.sock.pending[:] = []
            model.ask("ld.pending")
            case = {"seed": ctx.seed, "index": i, "open": cfg, "steps": list(steps), "scenario": scn}
            ctx.case(stream, (stream, scn, tuple(steps)))
            ctx.count("%s/%s" % (stream, "altered/" + what.split(" ")[0] if alter else "healthy"))
            ctx.count("%s/outcome/%s" % (stream, pair.impl_result[1] if pair.impl_result[0] == "raise" else "ok"))
            if pair.impl_result == ("raise", "hang"):
                break
            # a `Program:` symbol INSIDE a program scope (a table no controller produces; the generator adds it on purpose) makes
            # the real upload raise RuntimeError (dict changed size during iteration) — a recorded observation (DESIGN 12.6)
            # that the model mirrors; not judged here
            ghost = any(s_.name.startswith("Program:") for _, syms in p["programs"] for s_ in syms)
            if pair.impl_result[0] == "raise" and str(pair.impl_result[1]).startswith("foreign") and focus in ("C13", "C05") \
                    and not (ghost and str(pair.impl_result[1]).endswith("RuntimeError")):
                ctx.violation("get-tag-list-raises-foreign:%s" % str(pair.impl_result[1]).split(":")[-1],
                              {k_: v_ for k_, v_ in case.items() if k_ != "scenario"}, "get_tag_list raised %s" % (pair.impl_result[1],))
            verdict = compare_open(ctx, stream, case, pair)
            if verdict != "ok":
                break
            if not alter and pair.impl_result == ("ok", True):
                healthy[scope] = [r for r in pair.sock.replies[r0:] if r is not None]
                if not healthy[scope]:
                    del healthy[scope]
            if pair.impl_result[0] == "raise":
                break
        pair.close()


def run_open(ctx, model, focus):
    """LogixDriver.open() == Opn.openLogixSt, then read / write calls on the two self-contained sessions"""
    rng = ctx.rng
    stream = "ld-open"
    cstream = "ld-open-calls"
    for i in range(ctx.budget(40, 400)):
        p, scn, cfg = gen_open_setup(rng)
        pair = open_pair_of(model, scn, cfg)
        case = {"seed": ctx.seed, "index": i, "open": cfg, "calls": [], "scenario": scn}
        ctx.case(stream, (stream, scn, repr(cfg)))
        ctx.count("%s/outcome/%s" % (stream, pair.impl_result[1] if pair.impl_result[0] == "raise" else "returned-%s" % pair.impl_result[1]))
        ctx.count("%s/rev/%s" % (stream, "<18" if cfg["rev"] < 18 else ("18-20" if cfg["rev"] < 21 else ">=21")))
        ctx.count("%s/micro800/%s" % (stream, cfg["micro800"]))
        ctx.count("%s/init/%s" % (stream, "none" if not cfg["init_tags"] else ("all" if cfg["program_tags"] else "controller")))
        ctx.count("%s/policy/%s" % (stream, "".join("T" if x else "F" for x in cfg["policy"])))
        ctx.count("%s/pages/%s" % (stream, cfg["pages"]))
        ctx.count("%s/tmpl/%s" % (stream, cfg["tmpl"]))
        ctx.count("%s/path/%s" % (stream, cfg["path"]))
        for h in cfg["how"] or ["plain"]:
            ctx.count("%s/how/%s" % (stream, h))
        ctx.count("%s/frames" % stream, len(pair.impl_frames))
        ctx.count("%s/conn/%s" % (stream, pair.d._cfg["connection_size"] if pair.d._target_is_connected else "none"))
        if pair.impl_result == ("raise", "hang"):
            ctx.count("%s/budget-exceeded" % stream)
            pair.close()
            continue
        verdict = compare_open(ctx, stream, case, pair)
        if verdict == "unmodelled":
            pair.close()
            continue
        good = verdict == "ok"
        if good and pair.impl_result == ("ok", True) and cfg["init_tags"]:
            ctx.count("%s/tags" % stream, len(pair.d.tags))
            ctx.count("%s/datatypes" % stream, len(pair.d._data_types))
            # the uploaded database == the database computed from the project (Drv.tagDbOf)
            a, b = model.ask("ld.tags"), model.ask("ld.tagdbof " + _b(cfg["program_tags"]))
            ctx.case("ld-open-vs-tagdbof", ("tagdbof", scn))
            if _norm(a) != _norm(b):
                if b == "none" and cfg["program_tags"] and any(s.name == "Program:" for s in p["controller"]):
                    # outside the domain of `tagDbOf` (a program symbol with an empty name): the real upload (and `Opn.getTagList`)
                    # asks for the scope "" = the controller scope again and lists every controller tag once more as
                    # "Program:.<name>" (logix_driver.py:457 `if program:`); `tagDbOf` has no such program and answers none
                    ctx.count("ld-open-vs-tagdbof/outside-domain/empty-program-name")
                elif b == "none":
                    ctx.mismatch("ld-open-vs-tagdbof", dict(case, field="tagDbOf"), "uploaded %d tags" % len(pair.d.tags), "tagDbOf = none")
                else:
                    ai, bi = _top(a), _top(b)
                    diff = next(((x, y) for x, y in zip(ai, bi) if x != y), (a[-300:], b[-300:]))
                    ctx.mismatch("ld-open-vs-tagdbof", dict(case, field="tagDbOf"), diff[0][:1500], diff[1][:1500])
        if good:
            good = compare_final_state(ctx, stream, case, pair)
        # ---- second phase: read / write on both sides; the Lean session has only its own `ld.open` state
        calls = []
        ncalls = rng.choice([1, 2, 3]) if pair.impl_result == ("ok", True) else 1
        for c in range(ncalls if good else 0):
            kind = rng.choice(["read", "read", "write"])
            if kind == "read":
                args, shapes = gen_read_call(rng, p, cfg["program_tags"])
                shown = list(args)
            else:
                args, shapes = gen_write_call(rng, p, cfg["program_tags"])
                args = [(t, v) for t, v in args if _renderable(v)]
                shown = [(t, sx.val(v)) for t, v in args]
            if not args:
                continue
            calls.append(shown)
            ccase = dict(case, calls=calls)
            impl, mod, line = pair.call(kind, args)
            if mod is None:
                ctx.count("%s/budget-exceeded" % cstream)
                good = False
                break
            ctx.case(cstream, (cstream, scn, repr(shown)))
            ctx.count("%s/%s" % (cstream, kind))
            ctx.count("%s/frames" % cstream, len(impl["frames"]))
            ctx.count("%s/outcome/%s" % (cstream, impl["result"][0] if impl["result"][0] != "raise" else "raise:" + impl["result"][1]))
            if impl["result"][0] == "tags":
                for t in impl["result"][1]:
                    ctx.count("%s/tag/%s" % (cstream, "ok" if t[3] == ("none",) else "error:" + t[3][0]))
            good = compare_call(ctx, cstream, dict(ccase, model_line=line[:3000]), impl, mod)
            if not good or impl["result"][0] == "raise":
                break
        if good and calls:
            compare_final_state(ctx, cstream, dict(case, calls=calls), pair)
            want, got = _sections(impl_drv_sx(pair.d, pair.seqbox)), {it[0]: it for it in sx.parse(model.ask("ld.drv")[3:])[0][1:]}
            if want != got:
                k = next(k for k in want if want[k] != got.get(k))
                ctx.mismatch(cstream, dict(case, calls=calls, field="drv." + k), repr(want[k]), repr(got.get(k)))
        if i < 2:
            ctx.sample({"stream": stream, "open": {k: v for k, v in cfg.items() if k != "rnd"}, "outcome": pair.impl_result,
                        "frames": len(pair.impl_frames), "calls": [c[:3] for c in calls][:2]})
        pair.close()


# ------------------------------------------------------------------ replay of one recorded case

def replay_case(model, case):
    """re-run a recorded mismatch case (scenario + config + calls) on both sides; prints both transcripts"""
    if "open" in case:
        ctx = core.Ctx("LD-replay", "quick", 0)
        pair = open_pair_of(model, case["scenario"], case["open"])
        print("open():", pair.impl_result, "frames", len(pair.impl_frames))
        print("ld.open:", pair.ld_out[:200].split(" (frames")[0])
        print("  verdict:", compare_open(ctx, "replay", {}, pair), " final state equal:", compare_final_state(ctx, "replay", {}, pair))
        for m in ctx.mismatches:
            print("   MISMATCH", m["case"], "\n      impl :", m["impl"][:600], "\n      model:", m["model"][:600])
    else:
        cfg = case["config"]
        pair = Pair(model, case["scenario"], cfg["rev"], None, program_tags=cfg["program_tags"])
        print("open:", pair.open_error, getattr(pair, "ld_status", None))
    for call in case["calls"]:
        if call and isinstance(call[0], (list, tuple)):
            args = [(t, sx.to_py(sx.parse(v)[0])) for t, v in call]
            args = [(t, _unfloat(v)) for t, v in args]
            kind = "write"
        else:
            args, kind = list(call), "read"
        impl, mod, line = pair.call(kind, args)
        print(kind, args if kind == "read" else [(t, repr(v)[:60]) for t, v in args])
        if mod is None:
            print("  the real call exceeded the harness budget (hang); nothing to compare")
            break
        print("  impl frames", len(impl["frames"]), "model frames", len(mod["frames"]), "equal", impl["frames"] == mod["frames"])
        if impl["frames"] != mod["frames"]:
            for a, b in zip(impl["frames"], mod["frames"]):
                if a != b:
                    print("   impl ", a[:300])
                    print("   model", b[:300])
                    break
        print("  results equal", impl["result"] == mod["result"])
        if impl["result"][0] == "tags" and mod["result"][0] == "tags":
            for a, b in zip(impl["result"][1], mod["result"][1]):
                if a != b:
                    print("   impl ", repr(a)[:500])
                    print("   model", repr(b)[:500])
        elif impl["result"] != mod["result"]:
            print("   impl ", repr(impl["result"])[:500])
            print("   model", repr(mod["result"])[:500])
    si, sm = pair.final_state()
    print("final state equal:", [_norm(a) == _norm(b) for a, b in zip(si, sm)])
    pair.close()


def _unfloat(v):
    import struct
    if isinstance(v, tuple) and len(v) == 2 and v[0] == "f":
        return struct.unpack("<d", struct.pack("<Q", v[1]))[0]
    if isinstance(v, list):
        return [_unfloat(x) for x in v]
    if isinstance(v, tuple):
        return tuple(_unfloat(x) for x in v)
    if isinstance(v, dict):
        return {k: _unfloat(x) for k, x in v.items()}
    return v


# ------------------------------------------------------------------ development entry point

def main():
    import argparse
    import json
    import logging
    import bridge
    ap = argparse.ArgumentParser()
    ap.add_argument("--n", type=int, default=200)
    ap.add_argument("--seed", type=int, default=0)
    ap.add_argument("--streams", default="tagdb,reads,writes", help="comma-separated: tagdb, reads, writes, open")
    ap.add_argument("--show", type=int, default=3)
    ap.add_argument("--replay", help="json file with one recorded case (as printed by --dump)")
    ap.add_argument("--dump", help="write the first mismatching case of each stream to this directory")
    a = ap.parse_args()
    logging.disable(logging.CRITICAL)
    model = bridge.Model()
    model.start()
    if a.replay:
        replay_case(model, json.load(open(a.replay)))
        return 0
    total = 0
    for name in a.streams.split(","):
        ctx = core.Ctx("LD-" + name, "quick", a.seed)
        ctx.budget = lambda quick, thorough, n=a.n: n
        {"tagdb": run_tagdb, "reads": run_reads, "writes": run_writes, "open": run_open}[name](ctx, model, "LD")
        for sname, st in ctx.streams.items():
            print("%-10s seed=%d cases=%d mismatches=%d unmodelled=%d" % (sname, a.seed, st["cases"], st["mismatches"], st["unmodelled"]))
            total += st["mismatches"]
        dist = {k: v for k, v in sorted(ctx.dist.items())}
        print("   ", json.dumps(dist)[:3000])
        for j, m in enumerate(ctx.mismatches[:a.show]):
            c = dict(m["case"])
            scn = c.pop("scenario", "")
            c.pop("model_line", None)
            print("  MISMATCH", m["stream"], json.dumps(c, default=repr)[:1500])
            print("     impl :", m["impl"][:700])
            print("     model:", m["model"][:700])
            if a.dump and j == 0:
                os.makedirs(a.dump, exist_ok=True)
                with open(os.path.join(a.dump, "%s-seed%d.json" % (name, a.seed)), "w") as f:
                    json.dump(m["case"], f, default=repr)
    model.close()
    return 1 if total else 0


if __name__ == "__main__":
    sys.exit(main())
