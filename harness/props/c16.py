"""C16 — device identities decode faithfully."""
import struct

import core
import sx
import fakesock
from props import transcripts as tr
from props.codec import impl_decode, impl_encode, model_decode_parse, same_decode


def ident_bytes(f):
    name = f["name"]
    return struct.pack("<HHHBBHIB", f["vendor"], f["ptype"], f["pcode"], f["major"], f["minor"], f["status"], f["serial"], len(name)) + name


def list_identity_item(f):
    return struct.pack("<H", 1) + struct.pack(">hH4s8s", 2, 44818, f["ip"].to_bytes(4, "big"), b"\0" * 8) + ident_bytes(f) + bytes([f["state"]])


_LISTED = None


def listed_tables():
    """(vendors, product types) as id -> name, read from the LITERAL listings in pycomm3/cip/status_info.py (the dict
    displays in the source text, parsed with ast), not from the exported lookup tables that the module derives from them:
    the property is about the names the listings give.  Falls back to the exported tables (id keys only) when the
    source no longer has literal listings of that shape; which source was used is recorded in the evidence."""
    global _LISTED
    if _LISTED is not None:
        return _LISTED
    import ast
    import os
    import pycomm3.cip.status_info as si
    found = {}
    try:
        tree = ast.parse(open(os.path.join(os.path.dirname(si.__file__), "status_info.py")).read())
        for node in tree.body:
            if isinstance(node, ast.Assign) and len(node.targets) == 1 and isinstance(node.targets[0], ast.Name) and isinstance(node.value, ast.Dict):
                nm = node.targets[0].id.lstrip("_")
                if nm in ("VENDORS", "PRODUCT_TYPES") and all(k is not None for k in node.value.keys):
                    try:
                        d = ast.literal_eval(node.value)
                    except ValueError:
                        continue
                    ids = {k: v for k, v in d.items() if isinstance(k, int) and isinstance(v, str)}
                    if len(ids) > len(found.get(nm, {})):
                        found[nm] = ids
    except (OSError, SyntaxError):
        pass
    src = {}
    for nm in ("VENDORS", "PRODUCT_TYPES"):
        if nm in found and len(found[nm]) >= 10:
            src[nm] = "literal listing in status_info.py (%d ids)" % len(found[nm])
        else:
            found[nm] = {k: v for k, v in getattr(si, nm).items() if isinstance(k, int) and isinstance(v, str)}
            src[nm] = "exported table (no literal listing found)"
    _LISTED = (found["VENDORS"], found["PRODUCT_TYPES"], src)
    return _LISTED


def expected(f, with_list_fields):
    VENDORS, PRODUCT_TYPES, _ = listed_tables()
    d = {}
    if with_list_fields:
        d["encap_protocol_version"] = 1
        d["ip_address"] = ".".join(str(b) for b in f["ip"].to_bytes(4, "big"))
    d.update({"vendor": VENDORS.get(f["vendor"], "UNKNOWN") if isinstance(VENDORS.get(f["vendor"]), str) else "UNKNOWN",
              "product_type": PRODUCT_TYPES.get(f["ptype"], "UNKNOWN") if isinstance(PRODUCT_TYPES.get(f["ptype"]), str) else "UNKNOWN",
              "product_code": f["pcode"], "revision": {"major": f["major"], "minor": f["minor"]},
              "status": struct.pack("<H", f["status"]), "serial": "%08x" % f["serial"], "product_name": f["name"].decode("latin-1")})
    if with_list_fields:
        d["state"] = f["state"]
    return d


def gen_fields(rng, vendor=None, ptype=None, namelen=None):
    n = rng.choice([0, 1, 5, 11, 32, 254, 255]) if namelen is None else namelen
    return {"vendor": rng.choice([0, 1, 2, 5, 65535, rng.randrange(65536)]) if vendor is None else vendor,
            "ptype": rng.choice([0, 12, 14, 43, 200, 65535, rng.randrange(65536)]) if ptype is None else ptype,
            "pcode": rng.choice([0, 1, 55, 65535, rng.randrange(65536)]), "major": rng.randrange(256), "minor": rng.randrange(256),
            "status": rng.choice([0, 0x3060, 0x3170, 0xFFFF, rng.randrange(65536)]),
            "serial": rng.choice([0, 1, 0xFFFFFFFF, 0x00C0FFEE, 0xA, rng.getrandbits(32)]),
            "name": bytes(rng.choice([rng.randrange(32, 127), rng.randrange(256)]) for _ in range(n)),
            "state": rng.randrange(256), "ip": rng.choice([0, 1, 0xFFFFFFFF, 0x0A000001, rng.getrandbits(32), rng.getrandbits(32)])}


def codec_level(ctx, model, cases):
    """identity objects as codecs: decode of the wire form gives the presented fields, encode . decode = id, the
    model decodes / encodes the same (also run by C06, whose statement names the identity objects)"""
    from pycomm3.custom_types import ModuleIdentityObject, ListIdentityObject
    rng = ctx.rng
    blines, bpend = [], []
    for f in cases:
        bs = ident_bytes(f)
        tail = bytes(rng.getrandbits(8) for _ in range(rng.choice([0, 0, 2])))
        r = impl_decode(ModuleIdentityObject, bs + tail)
        ctx.case("decode-module", ("m", bs))
        blines.append("ident.decmod " + sx.hexb(bs + tail))
        bpend.append(("decode-module", bs, r))
        want = expected(f, False)
        if r[0] != "ok" or r[1] != want or r[2] != len(tail):
            ctx.violation("module-identity-decoded-wrong", {"fields": {k: (v.hex() if isinstance(v, bytes) else v) for k, v in f.items()}},
                          "expected %r got %r" % (want, r))
        lb = list_identity_item(f)
        r2 = impl_decode(ListIdentityObject, lb)
        ctx.case("decode-list", ("l", lb))
        blines.append("ident.declist " + sx.hexb(lb))
        bpend.append(("decode-list", lb, r2))
        # the first two UINTs (item type, length) precede the version in the real reply; ListIdentityObject starts at offset 26:
        # item type code and length are the first two unnamed members
        # encode . decode = id for known vendor / type
        if want["vendor"] != "UNKNOWN" and want["product_type"] != "UNKNOWN":
            e = impl_encode(("ident",), ModuleIdentityObject, r[1]) if r[0] == "ok" else None
            if e is not None:
                ctx.case("encode-module", ("e", bs))
                blines.append("ident.encmod " + sx.val(r[1]))
                bpend.append(("encode-module", bs, e))
                if e.startswith("ok"):
                    back = impl_decode(ModuleIdentityObject, bytes.fromhex(e[6:-1]))
                    if back[0] != "ok" or back[1] != r[1]:
                        ctx.violation("identity-encode-decode-not-identity", {"identity": repr(r[1])}, "re-decoded %r" % (back,))
                else:
                    ctx.violation("identity-encode-rejected", {"identity": repr(r[1])}, e)
    # truncated identities: correspondence only
    f = gen_fields(rng, namelen=9)
    bs = ident_bytes(f)
    for cut in range(len(bs)):
        r = impl_decode(ModuleIdentityObject, bs[:cut])
        ctx.case("decode-truncated", ("t", cut))
        blines.append("ident.decmod " + sx.hexb(bs[:cut]))
        bpend.append(("decode-truncated", bs[:cut], r))
    outs = model.batch(blines)
    for (stream, bs, impl), out in zip(bpend, outs):
        if stream == "encode-module":
            if core.norm_err(out) != core.norm_err(impl):
                ctx.mismatch(stream, {"bytes": bs.hex()}, impl[:200], out[:200])
        else:
            m = model_decode_parse(out)
            if not same_decode(impl, m):
                ctx.mismatch(stream, {"bytes": bs.hex()[:200]}, repr(impl)[:300], out[:300])


def run(ctx, model):
    from pycomm3.custom_types import ModuleIdentityObject, ListIdentityObject
    from pycomm3 import LogixDriver
    rng = ctx.rng
    lines, pend = [], []
    # ---- codec level: every vendor / product-type id (stride in quick), every name length
    stride = ctx.budget(13, 1)
    vend, ptypes, src = listed_tables()
    ctx.extra["name_listings"] = src
    cases = [gen_fields(rng, vendor=v) for v in range(0, 65536, stride)] + [gen_fields(rng, ptype=p) for p in range(0, 65536, stride)] + \
            [gen_fields(rng, vendor=v) for v in sorted(vend)] + [gen_fields(rng, ptype=p) for p in sorted(ptypes)] + \
            [gen_fields(rng, namelen=n) for n in range(256)] + [gen_fields(rng) for _ in range(ctx.budget(500, 5000))]
    ctx.extra["exhaustive_subdomains"] = "every listed vendor id and product-type id; all ids 0..65535 with stride %d; product-name lengths 0..255" % stride
    codec_level(ctx, model, cases)
    # ---- driver level: list_identity / get_module_info / get_plc_info against the target
    for i in range(ctx.budget(150, 1500)):
        f = gen_fields(rng)
        scn = fakesock.base_scenario(vendor=f["vendor"], ptype=f["ptype"], pcode=f["pcode"], major=f["major"], minor=f["minor"],
                                     status=f["status"], serial=f["serial"], name=f["name"], state=f["state"], ip=f["ip"])
        micro = rng.random() < 0.3

        def chk(impl, case, f=f):
            from pycomm3.cip import KEYSWITCH
            r = impl["results"]
            wl = "(identity %s)" % sx.val(expected(f, True))
            wm = "(identity %s)" % sx.val(expected(f, False))
            wi = dict(expected(f, False))
            st = struct.pack("<H", f["status"])
            wi["keyswitch"] = KEYSWITCH.get(st[0], {}).get(st[1], "UNKNOWN")
            if r[1] != wl:
                ctx.violation("list-identity-wrong", case, "expected %s got %s" % (wl[:300], r[1][:300]))
            if r[2] != wm:
                ctx.violation("module-info-wrong", case, "expected %s got %s" % (wm[:300], r[2][:300]))
            if r[3] != "(identity %s)" % sx.val(wi):
                ctx.violation("plc-info-wrong", case, "expected %s got %s" % (sx.val(wi)[:300], r[3][:300]))
        impl = tr.run_case(ctx, model, lines, pend, "driver-identity", "C16", scn, "10.0.0.1/bp/0", True, {}, [b"\x77" * 8],
                           [("open",), ("listid",), ("modinfo", rng.choice([0, 1, 3])), ("plcinfo", micro)], check=chk, driver_cls=LogixDriver)
        if i < 2:
            ctx.sample({"identity": {k: (v.hex() if isinstance(v, bytes) else v) for k, v in f.items()}, "list_identity": impl["results"][1][:300]})
    tr.flush(ctx, model, lines, pend)
    run_identity_changes(ctx, model)


def run_identity_changes(ctx, model):
    """one driver object, several devices / device states: open, get_plc_info / get_module_info / _list_identity, close,
    the device behind the address is replaced by another one (other vendor, type, revision, key switch, serial, name),
    open again, ask again.  Every answer is the identity of the device that is there NOW."""
    import pycomm3.cip_driver as cd
    from pycomm3 import LogixDriver
    from pycomm3.cip import KEYSWITCH
    from props import transcripts as trn
    rng = ctx.rng
    for i in range(ctx.budget(25, 250)):
        shared = trn.SharedNet(model, {})
        old_sock = cd.Socket
        cd.Socket = lambda *a, **k: trn.NetSocket(shared)
        try:
            class Drv(LogixDriver):
                open = cd.CIPDriver.open          # session only: no controller initialisation
            d = Drv("10.0.0.1/bp/0")
            devices = [gen_fields(rng) for _ in range(rng.choice([2, 3]))]
            if rng.random() < 0.5:
                # the same device with only the key switch / status word turned
                devices[1] = dict(devices[0], status=rng.choice([0x3060, 0x3170, 0x2060, 0x1060, rng.randrange(65536)]))
            micro = rng.random() < 0.3
            d._micro800 = micro
            ctx.case("identity-changes", ("idch", i))
            for k, f in enumerate(devices):
                scn = fakesock.base_scenario(vendor=f["vendor"], ptype=f["ptype"], pcode=f["pcode"], major=f["major"], minor=f["minor"],
                                             status=f["status"], serial=f["serial"], name=f["name"], state=f["state"], ip=f["ip"])
                assert model.ask("target.new " + scn) == "ok"
                case = {"index": i, "device_number": k, "devices": [{kk: (vv.hex() if isinstance(vv, bytes) else vv) for kk, vv in x.items()} for x in devices[:k + 1]]}
                try:
                    d.open()
                    wi = dict(expected(f, False))
                    st = struct.pack("<H", f["status"])
                    wi["keyswitch"] = KEYSWITCH.get(st[0], {}).get(st[1], "UNKNOWN")
                    for rep in range(2):
                        got = d.get_plc_info()
                        if sx.val(got) != sx.val(wi):
                            ctx.violation("plc-info-of-an-earlier-device", case, "expected %s got %s" % (sx.val(wi)[:300], sx.val(got)[:300]))
                            break
                    gm = d.get_module_info(0)
                    if sx.val(gm) != sx.val(expected(f, False)):
                        ctx.violation("module-info-of-an-earlier-device", case, "expected %s got %s" % (sx.val(expected(f, False))[:300], sx.val(gm)[:300]))
                    gl = d._list_identity()
                    if sx.val(gl) != sx.val(expected(f, True)):
                        ctx.violation("list-identity-of-an-earlier-device", case, "expected %s got %s" % (sx.val(expected(f, True))[:300], sx.val(gl)[:300]))
                    d.close()
                except BaseException as e:  # noqa
                    if isinstance(e, (KeyboardInterrupt, SystemExit)):
                        raise
                    ctx.violation("identity-call-raises:" + core.exn_class(e), case, repr(e)[:200])
                    break
        finally:
            cd.Socket = old_sock


def replay(ctx, model, data):
    c = core.Ctx("C16", data.get("tier", "quick"), data.get("seed", 0))
    run(c, model)
    return any(v["sig"] == data["sig"] for v in c.violations)
