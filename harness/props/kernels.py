"""Unit-level correspondence of the Logix decision kernels (lean/PycommModel/Logix/Kernels.lean) with the
real functions of logix_driver.py / packets/logix.py.  Each `run_*` is included by the property that owns
the mechanism, so that a change in the real function breaks that property's correspondence."""
import struct

import core
import sx


def bare_driver(connection_size=4000, micro800=False, use_ids=True):
    """a LogixDriver object without a connection (only its pure logic is used)"""
    from pycomm3 import LogixDriver
    d = LogixDriver("10.0.0.1")
    d._cfg["connection_size"] = connection_size
    d._cfg["use_instance_ids"] = use_ids
    d._micro800 = micro800
    d._target_is_connected = True
    d._session = 1
    return d


def atomic_info(name, elem="SINT", dims=1, dim_len=100000, inst=0):
    from pycomm3.cip import DataTypes, Array
    tc = DataTypes.get(elem)
    tc = DataTypes[elem] if isinstance(tc, str) else tc
    return {"tag_name": name, "tag_type": "atomic", "data_type": elem, "data_type_name": elem, "dim": dims,
            "dimensions": [dim_len, 0, 0], "instance_id": inst, "type_class": Array(dim_len, tc) if dims else tc}


# ------------------------------------------------------------------ grouping (C03 / C04)

def run_plan(ctx, model, focus):
    from pycomm3.packets import ReadTagRequestPacket, WriteTagRequestPacket, MultiServiceRequestPacket
    rng = ctx.rng
    lines, pend = [], []
    for i in range(ctx.budget(300, 4000)):
        C = rng.choice([500, 4000, 4000, 504, 120])
        d = bare_driver(C)
        n = rng.choice([1, 2, 3, 5, 8, 20, 60]) + 1
        write = rng.random() < 0.5
        parsed, items = {}, []
        for rid in range(n):
            nm = "T" + "x" * rng.choice([0, 1, 3, 8, 20, 38])
            r = rng.random()
            els = rng.choice([1, 2, 10, 100, C - 30, C - 20, C - 12, C - 10, C - 4, C, C + 5, 3 * C]) if r < 0.5 else rng.randint(1, max(2, C // 3))
            els = max(1, els)
            info = atomic_info(nm, "SINT", inst=rng.choice([0, 7, 300, 70000]))
            err = rng.random() < 0.15
            pt = {"request_id": rid, "request_tag": nm, "plc_tag": nm, "user_tag": nm, "elements": els, "tag_info": info, "bit": None, "bool_elements": None}
            if err:
                pt["error"] = "some error"
            if write:
                pt["value"] = [rng.randrange(-128, 128) for _ in range(els)]
            parsed[rid] = pt
            # the size the loop works with, computed from the same packet classes
            if write:
                from pycomm3.logix_driver import encode_value
                val = encode_value(dict(pt, elements=els))
                pkt = WriteTagRequestPacket(1, nm, els, info, rid, True, val)
                pkt.build_message()
                size = len(pkt.message)
            else:
                pkt = ReadTagRequestPacket(1, nm, els, info, rid, True)
                pkt.build_message()
                size = els + len(pkt.message) + 2
            items.append((rid, err, size))
        try:
            reqs = d._write_build_multi_requests(parsed) if write else d._read_build_multi_requests(parsed)
            groups = [[r.request_id for r in q.requests] for q in reqs if isinstance(q, MultiServiceRequestPacket)]
            frag = [q.request_id for q in reqs if not isinstance(q, MultiServiceRequestPacket)]
            impl = "ok (groups %s) (frag %s)" % (" ".join("(" + " ".join(map(str, g)) + ")" for g in groups), " ".join(map(str, frag)))
        except BaseException as e:  # noqa
            impl = "err " + core.exn_class(e)
        ctx.case("kernel-plan", ("plan", C, write, tuple(items)))
        lines.append("k.plan %d %s" % (C, " ".join("(%d %s %d)" % (a, "T" if b else "F", c) for a, b, c in items)))
        pend.append(("kernel-plan", {"C": C, "write": write, "items": items}, impl))
        # implementation-side oracle for C03: every live request is in exactly one packet, in order
        if focus == "C03" and impl.startswith("ok"):
            flat = [x for g in groups for x in g] + frag
            live = [rid for rid, err, _ in items if not err]
            if sorted(flat) != sorted(live) or len(set(flat)) != len(flat):
                ctx.violation("grouping-loses-or-duplicates-requests", {"C": C, "write": write, "items": items}, "groups %s frag %s" % (groups, frag))
            if any(not g for g in groups):
                ctx.violation("empty-multi-service-packet", {"C": C, "write": write, "items": items}, str(groups))
    _flush(ctx, model, lines, pend)


# ------------------------------------------------------------------ read-modify-write masks (C02)

def run_masks(ctx, model, focus):
    from pycomm3.packets import ReadModifyWriteRequestPacket
    rng = ctx.rng
    lines, pend = [], []
    for typ, w in (("SINT", 1), ("INT", 2), ("DINT", 4), ("LINT", 8), ("USINT", 1), ("UINT", 2), ("UDINT", 4), ("DWORD", 4)):
        for _ in range(ctx.budget(40, 500)):
            ops = [(rng.randrange(8 * w) if typ != "DWORD" else rng.randrange(96), rng.random() < 0.5) for _ in range(rng.choice([1, 1, 2, 3, 8, 20]))]
            info = atomic_info("t", typ, dims=0)
            pkt = ReadModifyWriteRequestPacket(1, "t", info, -1, False)
            for k, (b, v) in enumerate(ops):
                pkt.set_bit(b, v, k)
            msg = pkt.build_message()
            tail = msg[-(2 + 2 * w):] if len(msg) >= 2 + 2 * w else b""
            size = struct.unpack_from("<H", tail, 0)[0] if tail else -1
            orm, andm = tail[2:2 + w], tail[2 + w:2 + 2 * w]
            impl = "ok %s %s" % (sx.hexb(orm), sx.hexb(andm))
            ctx.case("kernel-masks", ("masks", typ, tuple(ops)))
            eff = [(b % 32 if typ == "DWORD" else b, v) for b, v in ops]
            lines.append("k.masks %d %s" % (w, " ".join("(%d %s)" % (b, "T" if v else "F") for b, v in eff)))
            pend.append(("kernel-masks", {"type": typ, "ops": ops}, impl))
            if focus == "C02":
                # oracle: masks of the announced size; applying them changes exactly the written bits (last write wins)
                if size != w or len(msg) < 2 + 2 * w or len(orm) != w or len(andm) != w:
                    ctx.violation("rmw-mask-size", {"type": typ, "ops": ops}, "announced %d, masks %d/%d bytes" % (size, len(orm), len(andm)))
                else:
                    for old in (0, (1 << (8 * w)) - 1, rng.getrandbits(8 * w)):
                        new = (old | int.from_bytes(orm, "little")) & int.from_bytes(andm, "little")
                        want = old
                        for b, v in eff:
                            want = want | (1 << b) if v else want & ~(1 << b)
                        if new != want:
                            ctx.violation("rmw-masks-wrong-effect", {"type": typ, "ops": ops, "old": old}, "result %#x expected %#x" % (new, want))
                            break
    _flush(ctx, model, lines, pend)


# ------------------------------------------------------------------ BOOL window, symbol filter, type word (C01 / C05)

def run_boolwin(ctx, model, focus):
    rng = ctx.rng
    lines, pend = [], []
    d = bare_driver()
    from pycomm3.cip import DWORD, Array
    d._tags = {"bits": {"tag_name": "bits", "tag_type": "atomic", "data_type": "DWORD", "data_type_name": "DWORD", "dim": 1,
                        "dimensions": [64, 0, 0], "type_class": Array(64, DWORD)}}
    for idx in list(range(0, 70)) + [95, 96, 97, 1023, 2047]:
        for n in [1, 2, 31, 32, 33, 64, 65] if idx < 40 or focus == "C01" else [1, 32]:
            for rw in ("r", "w"):
                tag = "bits[%d]" % idx + ("{%d}" % n if n > 1 else "")
                try:
                    r = d._parse_tag_request(tag, rw)
                    el = int(r["plc_tag"].split("[")[1][:-1])
                    impl = "ok %d %d %d" % (el, r["bit"], r["elements"])
                except BaseException as e:  # noqa
                    impl = "err " + core.exn_class(e)
                ctx.case("kernel-boolwin", ("bw", idx, n, rw))
                lines.append("k.boolwin %s %d %d" % ("T" if rw == "w" else "F", idx, n))
                pend.append(("kernel-boolwin", {"idx": idx, "n": n, "rw": rw}, impl))
    _flush(ctx, model, lines, pend)


def run_filter(ctx, model, focus):
    rng = ctx.rng
    lines, pend = [], []
    d = bare_driver()
    names = ["tag", "Program:Main", "Routine:R", "Task:T", "Map:Local", "xCxn:3", "Local:1:I", "Local:1:O", "Rack:C", "Mod:S", "a:b",
             "a:I", "__x", "_x", "x__", "Program", "Cxn", "Map", "I:O", ":", "", "A:Ix:y", "Local:12:I1", "Local::I", "Loc:al:2:O", "é:I"]
    letters = "abXY:_IOCSMapxn1"
    for i in range(ctx.budget(1500, 20000)):
        nm = rng.choice(names) if i < 3 * len(names) else "".join(rng.choice(letters) for _ in range(rng.randint(0, 9)))
        st = rng.choice([0x00C4, 0x10C4, 0x8123, 0x9123, 0x20C3, 0x1068, rng.getrandbits(16)])
        if not nm.isascii():
            continue
        d._info = {"programs": {}, "tasks": {}, "modules": {}}
        d._cache = {"tag_name:id": {}, "id:struct": {}, "handle:id": {}, "id:udt": {}}
        d._create_tag = lambda name, raw: {"tag_name": name}
        raw = {"tag_name": nm, "instance_id": 5, "symbol_type": st, "symbol_address": 0, "symbol_object_address": 0,
               "software_control": 0, "external_access": "Read/Write", "dimensions": [0, 0, 0]}
        try:
            out = d._isolate_user_tags([raw], None)
            impl = "ok " + ("T" if out else "F")
        except BaseException as e:  # noqa
            impl = "err " + core.exn_class(e)
        ctx.case("kernel-filter", ("keep", nm, st))
        lines.append("k.keep %s %d" % (sx.name(nm), st))
        pend.append(("kernel-filter", {"name": nm, "symbol_type": st}, impl))
    del d._create_tag
    # symbol type word -> tag record fields
    from pycomm3.cip import DataTypes
    for i in range(ctx.budget(1500, 20000)):
        code = rng.choice([0xC1, 0xC2, 0xC3, 0xC4, 0xC5, 0xC6, 0xC7, 0xC8, 0xC9, 0xCA, 0xCB, 0xD3])
        dims = rng.randrange(4)
        w = code | (dims << 13) | (rng.randrange(8) << 8 if code == 0xC1 else 0)
        sc = rng.choice([0, 1 << 26, rng.getrandbits(32)])
        raw = {"tag_name": "t", "instance_id": 5, "symbol_type": w, "symbol_address": 0, "symbol_object_address": 0,
               "software_control": sc, "external_access": "Read/Write", "dimensions": [2, 3, 4]}
        try:
            t = d._create_tag("t", raw)
            impl = "ok F %d %d %d %d %s" % (t["dim"], w & 0xFFF, code, t.get("bit_position", (w >> 8) & 7), "T" if t["alias"] else "F")
            if t["data_type"] != DataTypes.get(code) or t["tag_type"] != "atomic":
                impl = "ok wrong-type"
        except BaseException as e:  # noqa
            impl = "err " + core.exn_class(e)
        ctx.case("kernel-typeword", ("tw", w, sc))
        lines.append("k.typeword %d %d" % (w, sc))
        pend.append(("kernel-typeword", {"word": w, "software_control": sc}, impl))
    _flush(ctx, model, lines, pend)


# ------------------------------------------------------------------ multi-service pack / unpack (C03 / C13)

def run_multi(ctx, model, focus):
    from pycomm3.packets import ReadTagRequestPacket, MultiServiceRequestPacket, MultiServiceResponsePacket
    rng = ctx.rng
    lines, pend = [], []
    for i in range(ctx.budget(300, 3000)):
        n = rng.choice([1, 2, 3, 5, 12, 40])
        reqs = []
        for rid in range(n):
            nm = "T" + "x" * rng.choice([0, 1, 2, 7, 20])
            reqs.append(ReadTagRequestPacket(1, nm, rng.choice([1, 2, 300]), atomic_info(nm, "DINT"), rid, rng.random() < 0.5))
        for r in reqs:
            r.build_message()
        m = MultiServiceRequestPacket(1, reqs)
        msg = m.build_message()
        body = msg[2 + 1 + 5:]           # sequence count, service, path (class 2 instance 1)
        impl = "ok " + sx.hexb(body)
        ctx.case("kernel-packmulti", ("pm", tuple(r.tag for r in reqs)))
        lines.append("k.packmulti " + " ".join(sx.hexb(r.tag_only_message()) for r in reqs))
        pend.append(("kernel-packmulti", {"n": n}, impl))
        # reply side: build a reply with per-service statuses, parse with the real class and with the model
        reps = []
        for r in reqs:
            st = rng.choice([0, 0, 0, 4, 5, 6, 0xFF])
            ext = struct.pack("<H", 0x2105) if st == 0xFF else b""
            data = struct.pack("<H", 0xC4) + bytes(rng.getrandbits(8) for _ in range(4 * r.elements)) if st in (0, 6) else b""
            reps.append(bytes([0xCC, 0, st, len(ext) // 2]) + ext + data)
        offs, pos = [], 2 + 2 * n
        for rp in reps:
            offs.append(pos)
            pos += len(rp)
        data = struct.pack("<H", n) + b"".join(struct.pack("<H", o) for o in offs) + b"".join(reps)
        raw = bytes(46) + bytes([0x8A, 0, 0x1E if any(rp[2] for rp in reps) else 0, 0]) + data
        raw = raw[:8] + b"\0\0\0\0" + raw[12:]
        try:
            resp = MultiServiceResponsePacket(m, raw)
            got = [bytes(x.raw[46:]) for x in resp.responses]
            impl2 = "ok (" + " ".join(sx.hexb(g) for g in got) + ")"
            if focus in ("C03", "C13"):
                for k, (x, rp) in enumerate(zip(resp.responses, reps)):
                    ok = rp[2] == 0
                    if bool(x) != ok and not (rp[2] == 6):
                        ctx.violation("multi-service-status-not-per-request", {"n": n, "index": k, "status": rp[2]}, "valid=%s" % bool(x))
                if len(resp.responses) != n:
                    ctx.violation("multi-service-response-count", {"n": n}, "%d responses" % len(resp.responses))
        except BaseException as e:  # noqa
            impl2 = "err " + core.exn_class(e)
        ctx.case("kernel-unpackmulti", ("um", n, data))
        lines.append("k.unpackmulti " + sx.hexb(data))
        pend.append(("kernel-unpackmulti", {"n": n}, impl2))
        # the same reply cut short inside or just behind its offset table (`offset_data` is then cut by the slice;
        # half an offset fails the whole parse)
        for cut in sorted({2, 3, 4, 2 + n, 1 + 2 * n, 2 + 2 * n, 3 + 2 * n, rng.randint(2, len(data))}):
            if cut >= len(data):
                continue
            short = data[:cut]
            raw2 = raw[:50] + short
            try:
                resp = MultiServiceResponsePacket(m, raw2)
                impl3 = "ok (" + " ".join(sx.hexb(bytes(x.raw[46:])) for x in resp.responses) + ")"
            except BaseException as e:  # noqa
                impl3 = "err " + core.exn_class(e)
            ctx.case("kernel-unpackmulti-short", ("ums", n, short))
            lines.append("k.unpackmulti " + sx.hexb(short))
            pend.append(("kernel-unpackmulti-short", {"n": n, "cut": cut}, impl3))
    _flush(ctx, model, lines, pend)


# ------------------------------------------------------------------ client request messages (C01 / C02 / C09)

def _rand_tag(rng):
    def level():
        nm = rng.choice(["a", "Tag", "my_tag", "x" * rng.choice([1, 2, 7, 20, 39]), "A1_b"])
        idx = [rng.choice([0, 1, 7, 255, 256, 65535, 65536, 100000]) for _ in range(rng.choice([0, 0, 1, 1, 2, 3]))]
        return nm + ("[" + ",".join(map(str, idx)) + "]" if idx else "")
    tag = ".".join(level() for _ in range(rng.choice([1, 1, 2, 3])))
    if rng.random() < 0.2:
        tag = "Program:" + rng.choice(["Main", "P2"]) + "." + tag
    return tag


def run_msgs(ctx, model, focus):
    """the message-router request of every tag-service packet class == the Lean client's message (Logix/Client.lean)"""
    from pycomm3.packets import (ReadTagRequestPacket, ReadTagFragmentedRequestPacket, WriteTagRequestPacket,
                                 WriteTagFragmentedRequestPacket, ReadModifyWriteRequestPacket, MultiServiceRequestPacket)
    from pycomm3.cip import DataTypes
    rng = ctx.rng
    lines, pend = [], []
    types = ["SINT", "INT", "DINT", "LINT", "USINT", "UINT", "UDINT", "REAL", "LREAL", "DWORD", "BOOL"]
    for i in range(ctx.budget(250, 3000)):
        tag = _rand_tag(rng)
        inst = rng.choice([0, 0, 1, 7, 300, 70000])
        use = rng.random() < 0.6
        typ = rng.choice(types)
        info = atomic_info(tag, typ, inst=inst)
        struct_h = None
        if rng.random() < 0.25:
            struct_h = rng.randrange(65536)
            info = dict(info, tag_type="struct", data_type_name="UDT", data_type={"template": {"structure_handle": struct_h}, "name": "UDT"})
        code = DataTypes[typ].code
        n = rng.choice([1, 1, 2, 10, 255, 256, 65535])
        off = rng.choice([0, 1, 480, 65536, 2 ** 32 - 1])
        val = bytes(rng.getrandbits(8) for _ in range(rng.choice([0, 1, 2, 4, 9, 40])))
        kind = rng.choice(["read", "readfrag", "write", "writefrag", "rmw", "writeseg"] if focus != "C01" else ["read", "readfrag"])
        nm = sx.name(tag)
        u = "T" if use else "F"
        h = "nil" if struct_h is None else str(struct_h)
        try:
            if kind == "read":
                pkt = ReadTagRequestPacket(1, tag, n, info, 0, use)
                pkt._setup_message()
                impl, line = pkt.tag_only_message(), "k.msg read %s %d %s %d" % (nm, inst, u, n)
            elif kind == "readfrag":
                pkt = ReadTagFragmentedRequestPacket(1, tag, n, info, 0, use, off)
                impl, line = pkt.build_message()[2:], "k.msg readfrag %s %d %s %d %d" % (nm, inst, u, n, off)
            elif kind == "write":
                pkt = WriteTagRequestPacket(1, tag, n, info, 0, use, val)
                pkt._setup_message()
                impl, line = pkt.tag_only_message(), "k.msg write %s %d %s %s %d %d %s" % (nm, inst, u, h, code, n, sx.hexb(val))
            elif kind == "writefrag":
                pkt = WriteTagFragmentedRequestPacket(1, tag, n, info, 0, use, off, val)
                pkt._setup_message()
                impl, line = pkt.tag_only_message(), "k.msg writefrag %s %d %s %s %d %d %d %s" % (nm, inst, u, h, code, n, off, sx.hexb(val))
            elif kind == "writeseg":
                # the segment size _send_write_fragmented derives: connection size - (message - value)
                C = rng.choice([500, 4000, 504, 200])
                pkt = WriteTagFragmentedRequestPacket(1, tag, n, info, 0, use, 0, val)
                pkt.build_message()
                impl = ("%d" % (C - (len(pkt.message) - len(pkt.value)))).encode()
                line = "k.msg writeseg %d %s %d %s %s %d" % (C, nm, inst, u, h, code)
            else:
                if struct_h is not None or typ in ("REAL", "LREAL", "BOOL"):
                    continue
                w = DataTypes[typ].size
                ops = [(rng.randrange(8 * w), rng.random() < 0.5) for _ in range(rng.choice([1, 2, 3, 9]))]
                pkt = ReadModifyWriteRequestPacket(1, tag, info, 0, use)
                for k, (b, v) in enumerate(ops):
                    pkt.set_bit(b, v, k)
                impl = pkt.build_message()[2:]      # sent on its own: message after the sequence count
                line = "k.msg rmw %s %d %s %d %s" % (nm, inst, u, w, " ".join("(%d %s)" % (b, "T" if v else "F") for b, v in ops))
            if pkt.error or getattr(pkt, "_error", None):
                impl = "ok N"
            elif kind == "writeseg":
                impl = "ok " + impl.decode()
            else:
                impl = "ok " + sx.hexb(impl)
        except BaseException as e:  # noqa
            impl = "err " + core.exn_class(e)
        ctx.case("kernel-msg", (kind, tag, inst, use, typ, struct_h is not None, n))
        lines.append(line)
        pend.append(("kernel-msg", {"kind": kind, "tag": tag, "inst": inst, "use_ids": use, "type": typ, "struct": struct_h, "n": n, "off": off, "value": val.hex()}, impl))
    # multi-service wrapper
    for i in range(ctx.budget(40, 300)):
        msgs = [bytes(rng.getrandbits(8) for _ in range(rng.choice([2, 4, 9, 30]))) for _ in range(rng.choice([1, 2, 3, 8]))]

        class _R:  # the wrapper only uses tag_only_message() and request ids of its members
            def __init__(self, m):
                self._m = m
                self.request_id = 0
            def tag_only_message(self):
                return self._m
        try:
            m = MultiServiceRequestPacket(1, [_R(x) for x in msgs])
            impl = "ok " + sx.hexb(m.build_message()[2:])
        except BaseException as e:  # noqa
            impl = "err " + core.exn_class(e)
        ctx.case("kernel-msg", ("multi", tuple(len(x) for x in msgs)))
        lines.append("k.msg multi " + " ".join(sx.hexb(x) for x in msgs))
        pend.append(("kernel-msg", {"kind": "multi", "sizes": [len(x) for x in msgs]}, impl))
    _flush(ctx, model, lines, pend)


def run_readreply(ctx, model, focus):
    """parse_read_reply on elementary replies == the Lean client's parseReadReply"""
    from pycomm3.packets.util import parse_read_reply
    from pycomm3.cip import DataTypes, Array
    rng = ctx.rng
    lines, pend = [], []
    for i in range(ctx.budget(200, 2500)):
        typ = rng.choice(["SINT", "INT", "DINT", "LINT", "USINT", "UINT", "UDINT", "REAL", "LREAL", "DWORD", "BOOL"])
        tc = DataTypes[typ]
        is_arr = rng.random() < 0.6
        n = rng.choice([1, 1, 2, 3, 17]) if is_arr else 1
        size = tc.size * n
        cut = rng.choice([0, 0, 0, 0, -1, 1, 5])
        payload = bytes(rng.getrandbits(8) for _ in range(max(0, size + (cut if cut <= 0 else cut))))
        if typ in ("REAL", "LREAL"):
            # avoid NaN payload comparisons: use finite values
            import struct as _s
            fmt = "<f" if typ == "REAL" else "<d"
            payload = b"".join(_s.pack(fmt, rng.choice([0.0, 1.5, -2.25, 1e10, 3.0])) for _ in range(n))[: max(0, size + min(cut, 0))]
        data = _s16(tc.code) + payload
        info = {"data_type_name": typ, "type_class": Array(rng.choice([n, n + 3, 100]), tc) if is_arr else tc}
        try:
            v, name = parse_read_reply(data, info, n)
            impl = "ok " + sx.val(v)
        except BaseException as e:  # noqa
            impl = "err " + core.exn_class(e)
        ctx.case("kernel-readreply", (typ, is_arr, n, cut))
        lines.append("k.readreply %s %d %s %d" % (sx.hexb(data), tc.code, "T" if is_arr else "F", n))
        pend.append(("kernel-readreply", {"type": typ, "array": is_arr, "n": n, "data": data.hex()}, impl))
    _flush(ctx, model, lines, pend)


def _s16(x):
    return struct.pack("<H", x)


# ------------------------------------------------------------------ upload parsers (C05)

class _Resp:
    def __init__(self, data, status):
        self.data, self.service_status = data, status


def _rand_ident(rng, allow_empty=False):
    if allow_empty and rng.random() < 0.1:
        return ""
    base = rng.choice(["LEN", "DATA", "CTL", "Control", "Speed", "ZZZZZZZZZZAxis0", "__hidden", "a", "Val_1", "PRE", "ACC", "EN", "x" * rng.choice([1, 5, 40])])
    return base if rng.random() < 0.6 else base + str(rng.randrange(100))


def run_upload_parsers(ctx, model, focus):
    """_parse_instance_attribute_list and _parse_template_data == Logix/Upload.lean"""
    rng = ctx.rng
    lines, pend = [], []
    # --- symbol records
    for i in range(ctx.budget(150, 2000)):
        rev = rng.choice([16, 17, 18, 20, 32])
        d = bare_driver()
        d._info["revision"] = {"major": rev, "minor": 1}
        wa = rev >= 18
        recs, data = [], b""
        for k in range(rng.choice([0, 1, 2, 5, 20])):
            name = rng.choice(["Tag", "Program:Main", "Local:1:I", "a" * rng.choice([1, 2, 40]), "t\xe9", ""]) + (str(k) if rng.random() < 0.5 else "")
            r = (rng.choice([1, 2, 300, 70000, 2 ** 32 - 1]), name, rng.randrange(65536), rng.getrandbits(32), rng.getrandbits(32), rng.getrandbits(32),
                 [rng.choice([0, 1, 10, 70000]) for _ in range(3)], rng.randrange(256))
            recs.append(r)
            nb = name.encode("latin-1")
            data += struct.pack("<IH", r[0], len(nb)) + nb + struct.pack("<HIIIIII", r[2], r[3], r[4], r[5], *r[6]) + (bytes([r[7]]) if wa else b"")
        mode = rng.choice(["ok", "ok", "ok", "cut", "extra"])
        if mode == "cut" and data:
            data = data[: rng.randrange(len(data))]
        elif mode == "extra":
            data += bytes(rng.getrandbits(8) for _ in range(rng.choice([1, 3, 7])))
        out = []
        try:
            nxt = d._parse_instance_attribute_list(_Resp(data, rng.choice([0, 6])), out)
            impl = "ok (" + " ".join("(%d %s %d %d %d %d (%d %d %d) %s)" % (
                t["instance_id"], sx.name(t["tag_name"]), t["symbol_type"], t["symbol_address"], t["symbol_object_address"], t["software_control"],
                t["dimensions"][0], t["dimensions"][1], t["dimensions"][2], "N" if not wa else "A") for t in out) + ")"
        except BaseException as e:  # noqa
            impl = "err " + core.exn_class(e)
        ctx.case("kernel-records", ("records", rev, mode, len(recs), data))
        lines.append("k.records %s %s" % ("T" if wa else "F", sx.hexb(data)))
        pend.append(("kernel-records", {"rev": rev, "mode": mode, "data": data.hex()}, impl))
    # --- structure definitions
    for i in range(ctx.budget(200, 2500)):
        d = bare_driver()
        d._get_data_type = lambda inst, typ: {"name": "S%d" % inst, "type_class": __import__("pycomm3").cip.Struct()}
        n = rng.choice([0, 1, 2, 3, 6, 12])
        sym = rng.choice([0x8123, 0x8FCE, 0x80FF, 0x8100, 0x8EFF, 0x8F00, 0xA234, 0x8045])
        is_string = rng.random() < 0.15
        members = []
        if is_string:
            members = [("LEN", 0, 0xC4, 0), ("DATA", rng.choice([1, 82, 480]), 0xC2, 4)]
        else:
            off = 0
            for k in range(n):
                typ = rng.choice([0xC1, 0xC2, 0xC3, 0xC4, 0xC8, 0xCA, 0xCB, 0xD3, 0x8123, 0x8FCE, 0x20C4, 0x0FC4, 0x8000 | 0xC4])
                info = rng.randrange(8) if typ == 0xC1 else rng.choice([0, 0, 2, 10])
                members.append((_rand_ident(rng, allow_empty=True), info, typ, off))
                off += rng.choice([0, 1, 4, 8])
        tname = rng.choice(["MyUDT", "TIMER", "ASCIISTRING82", "U" * 40, "x"])
        with_semicolon = rng.random() < 0.8
        namefield = (tname + ";n" + rng.choice(["", "EATDPBAA", ";x"])) if with_semicolon else None
        names = ([namefield] if namefield is not None else ([tname] if rng.random() < 0.7 else [])) + [m[0] for m in members]
        data = b"".join(struct.pack("<HHI", m[1], m[2], m[3]) for m in members) + b"".join(x.encode() + b"\0" for x in names)
        data += bytes(rng.choice([0, 0, 1, 3]))
        count = len(members) if rng.random() < 0.9 else max(0, len(members) + rng.choice([-1, 1]))
        if rng.random() < 0.05 and data:
            data = data[: rng.randrange(len(data))]
        template = {"member_count": count, "structure_size": rng.choice([4, 8, 88, 484]), "structure_handle": 1, "object_definition_size": 10}
        try:
            dt = d._parse_template_data(data, template, sym)
            mem = []
            for nm_, info in dt["internal_tags"].items():
                mem.append("(%s %d %s)" % (sx.name(nm_), info["offset"], "T" if nm_ not in dt["attributes"] else "F"))
            impl = "ok %s (%s) (%s) %s" % ("N" if dt["name"] is None else sx.name(dt["name"]), " ".join(mem), " ".join(sx.name(a) for a in dt["attributes"]),
                                           "N" if "string" not in dt else str(dt["string"]))
        except BaseException as e:  # noqa
            impl = "err " + core.exn_class(e)
        ctx.case("kernel-template", ("tmpl", count, sym, data))
        if any(b >= 0x80 for b in data[count * 8:]):
            # names outside ASCII (here: member-info bytes read as names after a wrong member count) are decoded as UTF-8
            # with replacement by the real code; the model is restricted to ASCII names
            ctx.unmodelled("kernel-template")
            continue
        lines.append("k.template %d %d %s" % (count, sym, sx.hexb(data)))
        pend.append(("kernel-template", {"count": count, "symbol_type": sym, "data": data.hex()}, impl))
    _flush_upload(ctx, model, lines, pend)


def _flush_upload(ctx, model, lines, pend):
    """model output is richer than what the real data structures expose uniformly: project it first"""
    outs = model.batch(lines) if lines else []
    for (stream, case, impl), out in zip(pend, outs):
        if stream == "kernel-records" and out.startswith("ok"):
            # access: the real code maps the code through EXTERNAL_ACCESS (text); compare presence only
            items = sx.parse(out[3:])[0]
            out = "ok (" + " ".join("(%s %s %s %s %s %s (%s) %s)" % (
                it[0], _sx_name(it[1]), it[2], it[3], it[4], it[5], " ".join(it[6]), "N" if it[7] == "N" else "A") for it in items) + ")"
        elif stream == "kernel-template" and out.startswith("ok"):
            parts = sx.parse(out[3:])
            name, members, attrs, string = parts
            # dict semantics of internal_tags: a repeated member name keeps its first position and its last info
            seen = {}
            for m in members:
                seen[_sx_name(m[0])] = (m[3], m[4])
            mem = " ".join("(%s %s %s)" % (k, v[0], v[1]) for k, v in seen.items())
            out = "ok %s (%s) (%s) %s" % ("N" if name == "N" else _sx_name(name), mem, " ".join(_sx_name(a) for a in attrs), string)
        if out != impl:
            ctx.mismatch(stream, {k: (str(v)[:300]) for k, v in case.items()}, impl[:300], out[:300])


def _sx_name(x):
    return "(" + " ".join(x) + ")" if isinstance(x, list) else x


def _flush(ctx, model, lines, pend):
    outs = model.batch(lines) if lines else []
    for (stream, case, impl), out in zip(pend, outs):
        if out != impl:
            ctx.mismatch(stream, {k: (str(v)[:300]) for k, v in case.items()}, impl[:300], out[:300])
