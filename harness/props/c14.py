"""C14 — generic messaging delivers the request verbatim and returns the answer."""
import re

import core
import fakesock
import sx
import refpath
from props import transcripts as tr


def as_int(x):
    return x if isinstance(x, int) else int.from_bytes(x, "little")


def expected_route(route_path, cfg_hops):
    """route bytes the target must see in the Unconnected Send wrapper (CIP reference encoding)"""
    from pycomm3.cip.data_types import PortSegment
    names = PortSegment.port_segments
    def hop(p, l):
        pn = names[p] if isinstance(p, str) and not p.isdigit() else int(p)
        ln = l if isinstance(l, int) else (int(l) if l.isdigit() else l)
        return (pn, ln)
    if route_path is True:
        hops = cfg_hops
    elif route_path is False:
        return b""
    elif isinstance(route_path, str):
        parts = route_path.replace("\\", "/").split("/")
        hops = [hop(parts[i], parts[i + 1]) for i in range(0, len(parts), 2)]
    elif isinstance(route_path, (bytes, bytearray)):
        return bytes(route_path)
    else:
        hops = [hop(p, l) for p, l in route_path]
    r = refpath.ref_route(hops)
    return r[:1] + b"\x00" + r[1:]          # length byte, pad byte, segments


def check_route_after(ctx, impl, case, cfg_hops):
    """every Unconnected Send of the history that was asked to use the configured route carries exactly that route"""
    want = expected_route(True, cfg_hops)[2:]
    evs = re.findall(r"\(mr F T (\d+) \(([^()]*(?:\([^()]*\)[^()]*)*)\) \(b ?([0-9a-f]*)\) \(b ?([0-9a-f]*)\)\)", impl["log"])
    mine = [e for e in evs if e[1].strip().startswith("(lg 0 112)")]
    if not mine:
        ctx.violation("request-not-delivered", case, "the Unconnected Send to class 0x70 did not reach the message router")
    for svc, path, data, route in mine:
        if bytes.fromhex(route) != want:
            ctx.violation("request-altered:route", case, "route %s != configured route %s (after get_module_info of another slot)" % (route, want.hex()))


def run_route_after(ctx, model, lines, pend, focus, paths, auto=False, extra=True):
    """the configured route survives other calls: module info of another slot (which builds its own route from the
    configured one), then messages over the configured route"""
    rng = ctx.rng
    # also a driver without route and one whose route ends at a network hop (the module route is built from the configured
    # one: nothing of it may stay behind in the configuration)
    paths = list(paths) + ([("10.0.0.1/bp/1/enet/10.11.12.13", [(1, 1), (2, "10.11.12.13")])] if extra else [])
    for path, hops in paths:
        for slot in (0, 1, 5):
            a = {"service": 0x0E, "class_code": 0x70, "instance": 2, "attribute": 1, "request_data": b"\x01\x02\x03", "name": "g",
                 "connected": False, "unconnected_send": True, "route_path": True}
            generic = (0, (), b"\x10\x20")
            scn, _, _ = tr.gen_base(rng, policy=(True, True, True), generic=generic)
            ctx.count("mode/ucs-after-module-info")
            tr.run_case(ctx, model, lines, pend, "route-after-module-info", focus, scn, path, auto, {}, [b"\x88" * 8],
                        [("open",), ("modinfo", slot), ("gm", a), ("gm", dict(a, connected=True, unconnected_send=False))],
                        check=lambda impl, case, hops=hops: check_route_after(ctx, impl, case, hops))


def check_delivery(ctx, impl, case, a, generic, cfg_hops):
    """the (last) mr event in the target log must be exactly what was asked for"""
    evs = re.findall(r"\(mr ([TF]) ([TF]) (\d+) \(([^()]*(?:\([^()]*\)[^()]*)*)\) \(b ?([0-9a-f]*)\) \(b ?([0-9a-f]*)\)\)", impl["log"])
    evs = [e for e in evs if not (e[2] in ("84", "91", "78") and e[3].strip() == "(lg 0 6) (lg 4 1)")]   # forward open/close bookkeeping
    if not evs:
        ctx.violation("request-not-delivered", case, "no message-router request reached the target; results %s" % impl["results"][-1][:200])
        return
    conn, ucs, svc, path, data, route = evs[-1]
    want_path = "(lg 0 %d) (lg 4 %d)" % (as_int(a["class_code"]), as_int(a["instance"]))
    if a.get("attribute"):
        want_path += " (lg 16 %d)" % as_int(a["attribute"])
    data = bytes.fromhex(data)
    route = bytes.fromhex(route)
    connected = a.get("connected", True)
    ucsend = a.get("unconnected_send", False)
    rp = a.get("route_path", True)
    want_data = a.get("request_data", b"")
    if not connected and not ucsend:
        # direct UCMM: the encoded route is appended to the request data by design (how Forward Open carries its path)
        want_data = want_data + expected_route(rp, cfg_hops)
    problems = []
    if int(svc) != a["service"]:
        problems.append("service %s != %d" % (svc, a["service"]))
    if path.strip() != want_path:
        problems.append("path (%s) != (%s)" % (path.strip(), want_path))
    if data != want_data:
        problems.append("data %s != %s" % (data.hex(), want_data.hex()))
    if (conn == "T") != connected or (ucs == "T") != (ucsend and not connected):
        problems.append("transport connected=%s ucs=%s" % (conn, ucs))
    if ucsend and not connected:
        wr = expected_route(rp, cfg_hops)
        if route != wr[2:] if len(wr) >= 2 else route != b"":
            problems.append("route %s != %s" % (route.hex(), wr[2:].hex()))
    if problems:
        ctx.violation("request-altered:" + problems[0].split(" ")[0], case, "; ".join(problems))
    # the answer
    res = impl["results"][-1]
    status, ext, rdata = generic
    if status == 0 and not a.get("dt"):
        want = "(tag T %s none)" % sx.hexb(rdata)
        if res != want:
            ctx.violation("reply-data-altered", case, "expected %s got %s" % (want, res[:200]))
    elif status == 6:
        pass     # partial transfer: success for the services that legitimately continue (C13)
    elif status != 0:
        from pycomm3.cip import SERVICE_STATUS
        if not res.startswith("(tag F"):
            ctx.violation("refused-request-not-falsy", case, res[:200])
        else:
            txt = SERVICE_STATUS.get(status, "(%02x)" % status)
            if sx.name(txt)[3:-1] not in res:
                ctx.violation("refusal-without-status-text", case, "status %#x, result %s" % (status, res[:300]))


def run(ctx, model):
    import tygen
    rng = ctx.rng
    lines, pend = [], []
    paths = [("10.0.0.1/bp/0", [(1, 0)]), ("10.0.0.1/bp/1/enet/10.11.12.13/bp/0", [(1, 1), (2, "10.11.12.13"), (1, 0)]),
             ("10.0.0.1", [])]
    n = ctx.budget(500, 6000)
    for i in range(n):
        scn, policy, generic = tr.gen_base(rng, policy=(True, rng.random() < 0.7, True))
        op = tr.gen_gm(rng)
        a = op[1]
        # keep object ids out of the classes the target implements itself so that the generic object answers
        if as_int(a["class_code"]) in (1, 2, 6, 0x64, 0x8B, 0x6B, 0x6C, 0x67):
            a["class_code"] = 0x70
        if isinstance(a["class_code"], bytes) and len(a["class_code"]) == 3:
            a["class_code"] = 0x70
        if a.get("dt") and generic[0] == 0:
            a.pop("dt")
        if a.get("unconnected_send") and not a.get("connected", True) and a.get("route_path") in (False, b""):
            a["route_path"] = True       # delivery oracle below needs a route; the route-less wrapper has its own stream
        path, hops = rng.choice(paths)
        ctx.count("mode/%s" % ("connected" if a.get("connected", True) else ("ucs" if a.get("unconnected_send") else "ucmm")))
        ctx.count("data-len-parity/%d" % (len(a.get("request_data", b"")) % 2))
        impl = tr.run_case(ctx, model, lines, pend, "generic", "C14", scn, path, False, {}, [b"\x44" * 8], [("open",), op],
                           check=lambda impl, case, a=a, generic=generic, hops=hops: check_delivery(ctx, impl, case, a, generic, hops))
        if i < 3:
            ctx.sample({"op": tr.op_sx(op)[:300], "result": impl["results"][-1][:200]})
    # odd/even lengths 0..64 in every mode
    for ln in range(0, ctx.budget(33, 65)):
        for mode in ("conn", "ucmm", "ucs"):
            a = {"service": 0x32, "class_code": 0x70, "instance": 300, "attribute": 3, "request_data": bytes(range(ln)), "name": "g",
                 "connected": mode == "conn", "unconnected_send": mode == "ucs", "route_path": True}
            generic = (0, (), b"\xaa\xbb")
            scn, _, _ = tr.gen_base(rng, policy=(True, True, True), generic=generic)
            tr.run_case(ctx, model, lines, pend, "length-sweep", "C14", scn, paths[1][0], False, {}, [b"\x55" * 8], [("open",), ("gm", a)],
                        check=lambda impl, case, a=a, generic=generic: check_delivery(ctx, impl, case, a, generic, paths[1][1]))
    run_route_after(ctx, model, lines, pend, "C14", paths)
    # Unconnected Send with an empty route (route_path False / b"" / []): the wrapper still carries the embedded length
    # and, for an odd length, the pad byte; nothing follows.  The reference target cannot unwrap it (no route size field),
    # so the oracle is the wire layout itself, besides the transcript correspondence with the Lean client.
    for ln in range(0, ctx.budget(12, 40)):
        for rp in (False, b"", []):
            a = {"service": 0x0E, "class_code": 0x70, "instance": 7, "request_data": bytes(range(1, ln + 1)), "name": "g",
                 "connected": False, "unconnected_send": True, "route_path": rp}
            scn, _, _ = tr.gen_base(rng, policy=(True, True, True), generic=(0, (), b"\x01"))

            def chk(impl, case, a=a):
                inner = bytes([a["service"]]) + b"\x02\x20\x70\x24\x07" + a["request_data"]
                want = b"\x52\x02\x20\x06\x24\x01\x0a\x05" + len(inner).to_bytes(2, "little") + inner + (b"\x00" if len(inner) % 2 else b"")
                rr = [f for f in impl["frames"] if f[:2] == b"\x6f\x00"]
                if not rr:
                    ctx.violation("request-not-sent", case, "no SendRRData frame")
                    return
                item = rr[-1][24 + 16:]          # interface handle 4, timeout 2, item count 2, null address item 4, type 2, length 2
                if item != want:
                    ctx.violation("unconnected-send-wrapper-altered:no-route", dict(case, data_len=len(a["request_data"])),
                                  "unconnected data item %s, expected %s" % (item.hex(), want.hex()))
            ctx.count("mode/ucs-no-route")
            tr.run_case(ctx, model, lines, pend, "ucs-no-route", "C14", scn, paths[0][0], False, {}, [b"\x77" * 8], [("open",), ("gm", a)], check=chk)
    ctx.extra["exhaustive_subdomains"] = "request data lengths 0..%d x {connected, UCMM, Unconnected Send}; 0..%d x route-less Unconnected Send" % (
        ctx.budget(33, 65) - 1, ctx.budget(12, 40) - 1)
    # route_path=True after a full LogixDriver.open(): the driver's configured route — backplane slot 0 for a
    # ControlLogix-style target, nothing for a Micro800 (open() strips the backplane hop for these processors)
    import logixgen as lg
    from props import logix as lx
    for i in range(ctx.budget(6, 40)):
        micro = bool(i % 2)
        p = lg.gen_project(rng, n_templates=1, n_tags=3)
        p["micro800"] = micro
        sess = lx.Session(model, p)
        case = {"driver": "LogixDriver('10.0.0.1') after open()", "micro800": micro, "index": i}
        if sess.open_error is not None:
            ctx.violation("open-failed", case, repr(sess.open_error)[:200])
            sess.close()
            continue
        n_before = rng.choice([0, 1, 2])
        for _ in range(n_before):
            sess.d.get_plc_info()
        sess.log()
        data = bytes(rng.getrandbits(8) for _ in range(rng.choice([0, 1, 4])))
        sess.d.generic_message(service=0x0E, class_code=0x70, instance=1, attribute=1, request_data=data, connected=False,
                               unconnected_send=True, route_path=True, name="g")
        evs = re.findall(r"\(mr F T (\d+) \(([^()]*(?:\([^()]*\)[^()]*)*)\) \(b ?([0-9a-f]*)\) \(b ?([0-9a-f]*)\)\)", sess.log())
        ctx.case("configured-route", ("cfgroute", micro, n_before, len(data)))
        ctx.count("mode/ucs-configured-route-%s" % ("micro800" if micro else "logix"))
        want = b"" if micro else b"\x01\x00"
        if not evs:
            ctx.violation("request-not-delivered", case, "no Unconnected Send reached the message router")
        else:
            svc, path, d_, route = evs[-1]
            if bytes.fromhex(route) != want:
                ctx.violation("request-altered:route", dict(case, plc_info_calls_before=n_before),
                              "route %s != configured route %s" % (route, want.hex()))
            if bytes.fromhex(d_) != data or int(svc) != 0x0E:
                ctx.violation("request-altered:data", case, "service %s data %s" % (svc, d_))
        sess.close()
    # the same across close() / open() cycles, also for a route with several hops: what the first open() made of the
    # configured route is what every later connection uses
    from pycomm3 import LogixDriver as _LD
    from pycomm3.cip import PADDED_EPATH as _PE
    combos = [(pa, mi) for pa in ("10.0.0.1", "10.0.0.1/bp/1/enet/10.11.12.13/bp/0", "10.0.0.1/bp/2", "10.0.0.1/bp/1/enet/10.11.12.13/bp/3")
              for mi in (True, False)]
    for i, (path, micro) in enumerate(combos * ctx.budget(1, 3)):
        p = lg.gen_project(rng, n_templates=1, n_tags=3)
        p["micro800"] = micro
        name = b"2080-LC50" if micro else b"1756-L83E/B"
        scn = fakesock.base_scenario(policy=(True, True, True), major=p["rev"], name=name) + " " + lg.scenario_sx(p)
        assert model.ask("target.new " + scn) == "ok"
        d = _LD(path, init_tags=False)
        case = {"driver": "LogixDriver(%r)" % path, "micro800": micro, "index": i, "history": "open, close, open, close, open"}
        ctx.case("route-across-reopen", ("reopen-route", path, micro))
        routes = []
        try:
            for cyc in range(3):
                sock = fakesock.TargetSocket(model, {})
                d._sock = sock
                core.with_budget(60, d.open)
                routes.append(_PE.encode(d._cfg["cip_path"], length=True))
                d.generic_message(service=0x0E, class_code=0x70, instance=1, attribute=1, connected=False, unconnected_send=True,
                                  route_path=True, name="g")
                d.close()
        except BaseException as e:  # noqa
            if isinstance(e, (KeyboardInterrupt, SystemExit)):
                raise
            ctx.count("route-across-reopen/raised/" + core.exn_class(e))
        if len(set(routes)) > 1:
            ctx.violation("request-altered:route-changes-across-reopen", case,
                          "connection route after each open(): %s" % [r.hex() for r in routes])
    # helpers: PLC name, info, time set/get
    from pycomm3 import LogixDriver
    for i in range(ctx.budget(60, 600)):
        # datetime cannot represent times after year 9999 (253402300800000000 us): get_plc_time raises
        # OverflowError there; such clock values are outside the generated domain (DESIGN.md)
        us = rng.choice([0, 1, 2 ** 32, 2 ** 50, 253402300799999999, rng.getrandbits(57), 1700000000000000])
        name = bytes(rng.choice(b"ABCabc_019") for _ in range(rng.choice([0, 1, 5, 40])))
        scn, _, _ = tr.gen_base(rng, policy=(True, True, True), generic=(8, (), b""), plc_name=name, time_us=rng.getrandbits(50))

        def chk(impl, case, us=us, name=name):
            r = impl["results"]
            if r[1] != "(ok %s)" % sx.name(name.decode("latin-1")):
                ctx.violation("plc-name-wrong", case, "%s" % r[1][:200])
            if not r[2].startswith("(tag T"):
                ctx.violation("set-plc-time-refused", case, r[2][:200])
            if r[3] != "(time (i %d) none)" % us:
                ctx.violation("time-read-differs-from-time-written", case, "wrote %d, read %s" % (us, r[3][:100]))
        tr.run_case(ctx, model, lines, pend, "helpers", "C14", scn, "10.0.0.1", True, {}, [b"\x66" * 8],
                    [("open",), ("plcname",), ("setplctime", us), ("plctime",)], check=chk, driver_cls=LogixDriver)
    tr.flush(ctx, model, lines, pend)
    run_helper_changes(ctx, model)


def run_helper_changes(ctx, model):
    """one driver object, the answers of the target change between calls (a download renames the program, the clock
    runs): every helper returns what the target answers NOW — get_plc_name twice with another name in between,
    get_plc_time after the clock was set by someone else — and `info` follows"""
    import pycomm3.cip_driver as cd
    from pycomm3 import LogixDriver
    from props import transcripts as trn
    rng = ctx.rng
    for i in range(ctx.budget(20, 200)):
        shared = trn.SharedNet(model, {})
        old_sock = cd.Socket
        cd.Socket = lambda *a, **k: trn.NetSocket(shared)
        try:
            class Drv(LogixDriver):
                open = cd.CIPDriver.open          # session only: no controller initialisation
            d = Drv("10.0.0.1/bp/0")
            names = [bytes(rng.choice(b"ABCabc_019") for _ in range(rng.choice([1, 5, 12, 40]))) for _ in range(rng.choice([2, 3]))]
            times = [rng.getrandbits(50) for _ in names]
            reopen = rng.random() < 0.5
            ctx.case("helper-changes", ("hch", i))
            case = {"index": i, "names": [n.decode("latin-1") for n in names], "times": times, "close_and_reopen_between": reopen}
            try:
                for k, (nm, us) in enumerate(zip(names, times)):
                    assert model.ask("target.new " + fakesock.base_scenario(plc_name=nm, time_us=us)) == "ok"
                    if k == 0 or reopen:
                        d.open()
                    elif k:
                        # the same TCP connection cannot outlive a replaced target in the double: a fresh session
                        d.close()
                        d.open()
                    for rep in range(2):
                        got = d.get_plc_name()
                        if got != nm.decode("latin-1"):
                            ctx.violation("plc-name-of-an-earlier-answer", dict(case, call=k), "target answers %r, get_plc_name returned %r" % (nm.decode("latin-1"), got))
                            raise StopIteration
                    if d.info.get("name") != nm.decode("latin-1"):
                        ctx.violation("info-name-of-an-earlier-answer", dict(case, call=k), "info['name'] = %r" % (d.info.get("name"),))
                        raise StopIteration
                    t = d.get_plc_time()
                    if not t or t.value["microseconds"] != us:
                        ctx.violation("plc-time-of-an-earlier-answer", dict(case, call=k), "target clock %d, got %r" % (us, t))
                        raise StopIteration
                    if reopen:
                        d.close()
            except StopIteration:
                pass
            except BaseException as e:  # noqa
                if isinstance(e, (KeyboardInterrupt, SystemExit)):
                    raise
                ctx.violation("helper-call-raises:" + core.exn_class(e), case, repr(e)[:200])
        finally:
            cd.Socket = old_sock


def replay(ctx, model, data):
    c = core.Ctx("C14", data.get("tier", "quick"), data.get("seed", 0))
    run(c, model)
    return any(v["sig"] == data["sig"] for v in c.violations)
