"""C01 — tag reads return exactly what the controller holds."""
import core
import logixgen as lg
from props import logix as lx
from props.codec import oracle_eq


def run(ctx, model):
    from props import logixdrv
    logixdrv.run_reads(ctx, model, "C01")
    logixdrv.run_mixed(ctx, model, "C01")
    from props import kernels
    kernels.run_boolwin(ctx, model, "C01")
    kernels.run_msgs(ctx, model, "C01")
    kernels.run_readreply(ctx, model, "C01")
    run_near_limit(ctx, model)
    rng = ctx.rng
    n = ctx.budget(60, 700)
    for i in range(n):
        p = lg.gen_project(rng)
        if rng.random() < 0.15:
            p["micro800"] = True
        large = rng.random() < 0.6
        sess = lx.Session(model, p, conn_large=large)
        if sess.open_error is not None:
            ctx.count("open-failed")
            sess.close()
            continue
        reqs = [r for r in (lx.gen_read(rng, p) for _ in range(rng.choice([1, 1, 2, 3, 5, 10, 25, 60]))) if r]
        if not reqs:
            sess.close()
            continue
        if len(reqs) > 2 and rng.random() < 0.5:
            reqs.append(rng.choice(reqs))                # duplicates
        case = {"seed": ctx.seed, "index": i, "project": lx.project_summary(p), "large_connection": large,
                "micro800": p.get("micro800", False), "tags": [r[0] for r in reqs]}
        f0 = len(sess.sock.frames)
        try:
            res = core.with_budget(300, sess.d.read, *[r[0] for r in reqs])
        except BaseException as e:  # noqa
            if isinstance(e, (KeyboardInterrupt, SystemExit)):
                raise
            sent = sess.sock.frames[f0:]
            ctx.violation("read-raises:" + core.exn_class(e), case, "%s after %d frames of this call; the last ones: %s" % (
                repr(e)[:200], len(sent), [f[44:70].hex() for f in sent[-3:]]))
            sess.close()
            continue
        res = res if isinstance(res, list) else [res]
        ctx.case("reads", ("reads", i, tuple(case["tags"])))
        ctx.count("requests", len(reqs))
        ctx.count("conn/%s" % ("4000" if large and p["rev"] >= 0 else "500"))
        for (tag, want, wtype, _desc), got in zip(reqs, res):
            shape = lx_shape(tag)
            ctx.count("shape/" + shape)
            if not got:
                ctx.violation("read-fails:" + shape, dict(case, tag=tag, n_tags=len(reqs)), "expected %r, got falsy %s" % (want, lx.tag_summary(got)))
            elif not oracle_eq(want, got.value):
                ctx.violation("read-wrong-value:" + shape, dict(case, tag=tag), "expected %r got %r" % (want, got.value))
            elif got.type != wtype:
                ctx.violation("read-wrong-type-string:" + shape, dict(case, tag=tag), "expected %r got %r" % (wtype, got.type))
        if len(res) != len(reqs):
            ctx.violation("result-count", case, "%d results for %d requests" % (len(res), len(reqs)))
        for v in lx.violations_in_log(sess.log()):
            ctx.count("target-violation/" + v[:50])
        if i < 3:
            ctx.sample({"tags": case["tags"][:6], "results": [lx.tag_summary(t) for t in res[:6]]})
        sess.close()


def run_near_limit(ctx, model):
    """structure and elementary arrays whose read reply lands within a few bytes of the connection size, alone and
    inside a multi-tag call: the value must come back whole whichever way the driver decides to move it"""
    from props.c04 import sized_project
    rng = ctx.rng
    for C in (500, 4000):
        for elem in (None, 4, 8, 12):
            step = elem or 1
            lo = (C - 24) // step * step
            sizes = [x for x in range(lo, C + 8 + step, step)]
            if ctx.tier == "quick" and elem is None:
                sizes = sizes[::3]
            for size in sizes:
                for pos in (("single", "last") if ctx.tier == "quick" else ("single", "first", "last")):
                    name = "S" + "y" * rng.choice([1, 6, 19])
                    p = sized_project(rng, [(size, name), (4 * step, "o0"), (10 * step, "o1")], struct_elem=elem,
                                      reads=rng.choice([[], [], [1], [37]]))
                    sess = lx.Session(model, p, conn_large=(C == 4000))
                    if sess.open_error is not None:
                        ctx.count("open-failed")
                        sess.close()
                        continue
                    n_el = size // step
                    big = "%s{%d}" % (name, n_el) if n_el > 1 else name
                    tags = {"single": [big], "first": [big, "o0{4}", "o1{4}"], "last": ["o0{4}", "o1{4}", big]}[pos]
                    case = {"connection_size": C, "tag_bytes": size, "element_bytes": step, "position": pos, "tags": tags,
                            "element": "SINT" if elem is None else "%d-byte struct" % elem}
                    try:
                        res = core.with_budget(300, sess.d.read, *tags)
                    except BaseException as e:  # noqa
                        if isinstance(e, (KeyboardInterrupt, SystemExit)):
                            raise
                        ctx.violation("read-raises:" + core.exn_class(e), case, repr(e)[:300])
                        sess.close()
                        continue
                    res = res if isinstance(res, list) else [res]
                    ctx.case("near-limit-reads", ("nl", C, size, elem, pos))
                    ctx.count("near-limit/%s" % case["element"])
                    for t, got in zip(tags, res):
                        sym = lx._find_symbol(p, t.split("{")[0])
                        cnt = int(t.split("{")[1][:-1]) if "{" in t else 1
                        want = lg.ref_elements(sym.kind, sym.typ, bytes(sym.mem), 0, cnt)
                        want = want if "{" in t else want[0]
                        if not got:
                            ctx.violation("read-fails-near-connection-size:" + case["element"].split("-")[0], dict(case, tag=t),
                                          "expected the value, got falsy %s" % lx.tag_summary(got))
                        elif not oracle_eq(want, got.value):
                            ctx.violation("read-wrong-value-near-connection-size", dict(case, tag=t), "value differs")
                    sess.close()


def lx_shape(tag):
    s = []
    if "{" in tag:
        s.append("count")
    if "[" in tag:
        s.append("index")
    base = tag.split("{")[0]
    parts = base.split(".")
    if parts[0].startswith("Program:"):
        parts = parts[1:]
        s.append("program")
    if len(parts) > 1:
        s.append("bit" if parts[-1].isdigit() else "member")
    return "+".join(s) or "base"


def replay(ctx, model, data):
    c = core.Ctx("C01", data.get("tier", "quick"), data.get("seed", 0))
    run(c, model)
    return any(v["sig"] == data["sig"] for v in c.violations)
