"""C01 — tag reads return exactly what the controller holds."""
import core
import logixgen as lg
from props import logix as lx
from props.codec import oracle_eq


def run(ctx, model):
    from props import kernels
    kernels.run_boolwin(ctx, model, "C01")
    kernels.run_msgs(ctx, model, "C01")
    kernels.run_readreply(ctx, model, "C01")
    rng = ctx.rng
    n = ctx.budget(60, 700)
    for i in range(n):
        p = lg.gen_project(rng)
        if rng.random() < 0.15:
            p["micro800"] = True
        large = rng.random() < 0.6
        sess = lx.Session(model, p, conn_large=large)
        if sess.open_error is not None:
            ctx.count("open-failed")
            sess.close()
            continue
        reqs = [r for r in (lx.gen_read(rng, p) for _ in range(rng.choice([1, 1, 2, 3, 5, 10, 25, 60]))) if r]
        if not reqs:
            sess.close()
            continue
        if len(reqs) > 2 and rng.random() < 0.5:
            reqs.append(rng.choice(reqs))                # duplicates
        case = {"seed": ctx.seed, "index": i, "project": lx.project_summary(p), "large_connection": large,
                "micro800": p.get("micro800", False), "tags": [r[0] for r in reqs]}
        try:
            res = core.with_budget(60, sess.d.read, *[r[0] for r in reqs])
        except BaseException as e:  # noqa
            if isinstance(e, (KeyboardInterrupt, SystemExit)):
                raise
            ctx.violation("read-raises:" + core.exn_class(e), case, repr(e)[:300])
            sess.close()
            continue
        res = res if isinstance(res, list) else [res]
        ctx.case("reads", ("reads", i, tuple(case["tags"])))
        ctx.count("requests", len(reqs))
        ctx.count("conn/%s" % ("4000" if large and p["rev"] >= 0 else "500"))
        for (tag, want, wtype, _desc), got in zip(reqs, res):
            shape = lx_shape(tag)
            ctx.count("shape/" + shape)
            if not got:
                ctx.violation("read-fails:" + shape, dict(case, tag=tag, n_tags=len(reqs)), "expected %r, got falsy %s" % (want, lx.tag_summary(got)))
            elif not oracle_eq(want, got.value):
                ctx.violation("read-wrong-value:" + shape, dict(case, tag=tag), "expected %r got %r" % (want, got.value))
            elif got.type != wtype:
                ctx.violation("read-wrong-type-string:" + shape, dict(case, tag=tag), "expected %r got %r" % (wtype, got.type))
        if len(res) != len(reqs):
            ctx.violation("result-count", case, "%d results for %d requests" % (len(res), len(reqs)))
        for v in lx.violations_in_log(sess.log()):
            ctx.count("target-violation/" + v[:50])
        if i < 3:
            ctx.sample({"tags": case["tags"][:6], "results": [lx.tag_summary(t) for t in res[:6]]})
        sess.close()


def lx_shape(tag):
    s = []
    if "{" in tag:
        s.append("count")
    if "[" in tag:
        s.append("index")
    base = tag.split("{")[0]
    parts = base.split(".")
    if parts[0].startswith("Program:"):
        parts = parts[1:]
        s.append("program")
    if len(parts) > 1:
        s.append("bit" if parts[-1].isdigit() else "member")
    return "+".join(s) or "base"


def replay(ctx, model, data):
    c = core.Ctx("C01", data.get("tier", "quick"), data.get("seed", 0))
    run(c, model)
    return any(v["sig"] == data["sig"] for v in c.violations)
