"""Driver-level machinery shared by C01-C05: the REAL LogixDriver runs against the Lean reference
controller (harness/fakesock.py); results are compared with the reference interpretation of the generated
project (harness/logixgen.py) and the target's own event log / memory image."""
import json
import re
import struct

import core
import sx
import fakesock
import logixgen as lg
from props.codec import oracle_eq


class Session:
    """one opened LogixDriver on one generated project"""

    def __init__(self, model, project, conn_large=True, init_program_tags=True, faults=None):
        from pycomm3 import LogixDriver
        self.model, self.p = model, project
        name = b"2080-LC50" if project.get("micro800") else b"1756-L83E/B"
        policy = (True, conn_large, True)
        scn = fakesock.base_scenario(policy=policy, major=project["rev"], name=name) + " " + lg.scenario_sx(project)
        r = model.ask("target.new " + scn)
        assert r == "ok", r
        self.scn = scn
        self.d = LogixDriver("10.0.0.1", init_program_tags=init_program_tags)
        self.sock = fakesock.TargetSocket(model, faults or {})
        self.d._sock = self.sock
        self.open_error = None
        try:
            core.with_budget(60, self.d.open)
        except BaseException as e:  # noqa
            if isinstance(e, (KeyboardInterrupt, SystemExit)):
                raise
            self.open_error = e

    def log(self):
        return self.model.ask("target.log")[4:-1]

    def mem(self):
        """{(scope, inst): bytes}, writes [(inst, off, len)]"""
        out = self.model.ask("target.mem")
        items = sx.parse(out[3:])
        mem = {}
        for it in items:
            if it[0] == "controller":
                for s in it[1:]:
                    mem[(None, int(s[0]))] = bytes.fromhex(s[1][1]) if len(s[1]) > 1 else b""
            elif it[0] == "programs":
                for pr in it[1:]:
                    scope = "".join(chr(int(c)) for c in pr[0][1:])
                    for s in pr[1:]:
                        mem[(scope, int(s[0]))] = bytes.fromhex(s[1][1]) if len(s[1]) > 1 else b""
            elif it[0] == "writes":
                writes = [(int(w[0]), int(w[1]), int(w[2])) for w in it[1:]]
        return mem, writes

    def close(self):
        try:
            self.d.close()
        except Exception:  # noqa
            pass


def violations_in_log(log):
    return ["".join(chr(int(c)) for c in m.group(1).split()) for m in re.finditer(r"\(violation \(s([0-9 ]*)\)\)", log)]


# ------------------------------------------------------------------ expected upload result (C05)

def visible_members(t):
    return [m for m in t.members if not (m.get("hidden") or m["name"].startswith("ZZZZZZZZZZ") or m["name"].startswith("__"))]


def is_user_symbol(s):
    n = s.name
    if n.startswith("Program:") or n.startswith("Routine:") or n.startswith("Task:"):
        return False
    if "Map:" in n or "Cxn:" in n:
        return False
    io = any(x in n for x in (":I", ":O", ":C", ":S"))
    if (not io and ":" in n) or n.startswith("__"):
        return False
    if s.symbol_type & 0x1000:
        return False
    return True


def expected_tags(p, program_tags=True):
    out = {}
    def add(s, prefix):
        if not is_user_symbol(s):
            return
        ndim = len([d for d in s.dims if d])
        rec = {"tag_name": prefix + s.name, "instance_id": s.inst, "dim": ndim, "dimensions": list(s.dims), "alias": s.alias,
               "external_access": lg.EXTERNAL_ACCESS.get(s.access, "Unknown") if p["rev"] >= 18 else "Unknown",
               "symbol_address": s.attr3, "symbol_object_address": s.attr5, "software_control": s.attr6,
               "tag_type": "struct" if s.kind == "struct" else "atomic",
               "data_type_name": lg.type_name(s.kind, s.typ)}
        if s.kind == "struct":
            rec["template_instance_id"] = s.typ.tid
        elif s.typ == "BOOL":
            rec["bit_position"] = s.bool_bit
        out[rec["tag_name"]] = rec
    for s in p["controller"]:
        add(s, "")
    if program_tags:
        for pname, syms in p["programs"]:
            for s in syms:
                add(s, pname + ".")
    return out


def expected_datatype(t):
    d = {"name": t.name, "attributes": [m["name"] for m in visible_members(t)], "internal_tags": {},
         "template": {"structure_size": t.size, "member_count": len(t.members), "structure_handle": t.handle}}
    for m in t.members:
        it = {"offset": m["offset"], "tag_type": "struct" if m["kind"] == "struct" else "atomic",
              "data_type_name": lg.type_name(m["kind"], m["type"]) if m["kind"] != "bool" else "BOOL"}
        if m["kind"] == "bool":
            it["bit"] = m["bit"]
        else:
            it["array"] = m["array"]
        d["internal_tags"][m["name"]] = it
    if t.is_string:
        d["string"] = t.cap
    return d


def check_upload(ctx, sess, case, program_tags=True):
    """C05 oracle on one opened session"""
    p, d = sess.p, sess.d
    if sess.open_error is not None:
        ctx.violation("open-failed:" + core.exn_class(sess.open_error), case, repr(sess.open_error)[:300])
        return
    want = expected_tags(p, program_tags)
    got = d.tags
    missing = sorted(set(want) - set(got))
    extra = sorted(set(got) - set(want))
    if missing:
        ctx.violation("tags-missing", case, "missing %s" % missing[:5])
    if extra:
        ctx.violation("tags-invented-or-unfiltered", case, "extra %s" % extra[:5])
    for name, w in want.items():
        g = got.get(name)
        if g is None:
            continue
        for k, v in w.items():
            if g.get(k) != v:
                ctx.violation("tag-field-wrong:" + k, dict(case, tag=name), "%s: expected %r got %r" % (k, v, g.get(k)))
                break
        if w["tag_type"] == "struct":
            sym = _find_symbol(p, name)
            check_datatype(ctx, case, sym.typ, g["data_type"], name)
    # programs / tasks
    progs = {n[len("Program:"):]: [s.name[len("Routine:"):] for s in syms if s.name.startswith("Routine:")] for n, syms in p["programs"]}
    gp = d.info.get("programs", {})
    if set(gp) != set(progs):
        ctx.violation("programs-wrong", case, "expected %s got %s" % (sorted(progs), sorted(gp)))
    elif program_tags:
        for n, r in progs.items():
            if sorted(gp[n]["routines"]) != sorted(r):
                ctx.violation("routines-wrong", case, "%s: expected %s got %s" % (n, r, gp[n]["routines"]))
    tasks = {s.name[5:] for s in p["controller"] if s.name.startswith("Task:")}
    if set(d.info.get("tasks", {})) != tasks:
        ctx.violation("tasks-wrong", case, "expected %s got %s" % (sorted(tasks), sorted(d.info.get("tasks", {}))))
    try:
        json.dumps(d.tags_json)
    except Exception as e:  # noqa
        ctx.violation("tags_json-not-serialisable", case, repr(e)[:200])


def check_datatype(ctx, case, t, g, where, depth=0):
    w = expected_datatype(t)
    if not isinstance(g, dict):
        ctx.violation("datatype-not-a-definition", dict(case, at=where), repr(g)[:100])
        return
    if g.get("name") != w["name"] or g.get("attributes") != w["attributes"]:
        ctx.violation("datatype-members-wrong", dict(case, at=where), "expected %s %s got %s %s" % (
            w["name"], w["attributes"], g.get("name"), g.get("attributes")))
        return
    if g.get("string") != w.get("string"):
        ctx.violation("string-capacity-wrong", dict(case, at=where), "expected %r got %r" % (w.get("string"), g.get("string")))
    for k, v in w["template"].items():
        if g["template"].get(k) != v:
            ctx.violation("template-attribute-wrong:" + k, dict(case, at=where), "expected %r got %r" % (v, g["template"].get(k)))
    for mn, wi in w["internal_tags"].items():
        gi = g["internal_tags"].get(mn)
        if gi is None:
            ctx.violation("member-missing", dict(case, at=where + "." + mn), "no internal tag")
            continue
        for k, v in wi.items():
            if gi.get(k) != v:
                ctx.violation("member-field-wrong:" + k, dict(case, at=where + "." + mn), "expected %r got %r" % (v, gi.get(k)))
    if depth < 4:
        for m in t.members:
            if m["kind"] == "struct":
                check_datatype(ctx, case, m["type"], g["internal_tags"][m["name"]]["data_type"], where + "." + m["name"], depth + 1)


def _find_symbol(p, tag_name):
    if tag_name.startswith("Program:"):
        prog, name = tag_name.split(".", 1)
        for n, syms in p["programs"]:
            if n == prog:
                for s in syms:
                    if s.name == name:
                        return s
        return None
    for s in p["controller"]:
        if s.name == tag_name:
            return s
    return None


def project_summary(p):
    return {"rev": p["rev"], "templates": [(t.name, t.size, len(t.members)) for t in p["templates"]],
            "controller": [(s.name, s.inst, lg.type_name(s.kind, s.typ) if s.kind != "system" else "system", s.dims) for s in p["controller"]][:40],
            "programs": [(n, [s.name for s in syms]) for n, syms in p["programs"]],
            "pages": p["pages"], "tmpl": p["tmpl"], "reads": p["reads"]}


# ------------------------------------------------------------------ read requests and their reference interpretation (C01)

def user_symbols(p, with_programs=True):
    out = [(s, "") for s in p["controller"] if is_user_symbol(s) and s.kind != "system"]
    if with_programs:
        for pname, syms in p["programs"]:
            out += [(s, pname + ".") for s in syms if is_user_symbol(s) and s.kind != "system"]
    return out


def _count(dims):
    n = 1
    for d in dims:
        n *= d or 1
    return n


def _index_str(rng, dims):
    """random valid index for the used dimensions -> (text, linear index)"""
    ds = [d for d in dims if d]
    idx = [rng.randrange(d) if rng.random() < 0.7 else rng.choice([0, d - 1]) for d in ds]
    lin = 0
    for i, d in zip(idx, ds):
        lin = lin * d + i
    return "[" + ",".join(str(i) for i in idx) + "]", lin


def gen_member_path(rng, t, mem, depth=0):
    """descend into a structure value: returns (path suffix, kind, typ, bytes of the addressed item(s), array_len_available, bool?)"""
    vis = [m for m in visible_members(t)]
    if not vis:
        return None
    m = rng.choice(vis)
    if m["kind"] == "bool":
        return ("." + m["name"], "boolmember", None, bool(mem[m["offset"]] >> m["bit"] & 1), 0, (m["offset"], m["bit"]))
    sz = lg.elem_size(m["kind"], m["type"])
    base = mem[m["offset"]: m["offset"] + sz * max(m["array"], 1)]
    suffix = "." + m["name"]
    avail = 0
    off = m["offset"]
    if m["kind"] == "atomic" and m["type"] == "DWORD" and m["array"]:
        # a BOOL-array member: the index addresses a BOOL (bit i of the concatenated DWORDs)
        nbits = 32 * m["array"]
        i = rng.choice([0, 1, 31, 32 % nbits, nbits - 1, rng.randrange(nbits)])
        bits = [b for j in range(m["array"]) for b in lg.ref_atomic("DWORD", base[4 * j:4 * j + 4])]
        return (suffix + "[%d]" % i, "boolmember", None, bits[i], 0, (off + i // 8, i % 8))
    if m["array"]:
        if rng.random() < 0.75:
            i = rng.randrange(m["array"])
            suffix += "[%d]" % i
            base = base[i * sz:]
            off += i * sz
            avail = m["array"] - i
        else:
            avail = m["array"]
    if m["kind"] == "struct" and not m["type"].is_string and depth < 3 and rng.random() < 0.6:
        sub = gen_member_path(rng, m["type"], base[:sz], depth + 1)
        if sub is not None:
            so = sub[5]
            so = (off + so[0], so[1]) if isinstance(so, tuple) else off + so
            return (suffix + sub[0],) + sub[1:5] + (so,)
    return (suffix, m["kind"], m["type"], base, avail, off)


def gen_read(rng, p, with_programs=True):
    """-> (tag string, expected value, expected type string) for something that exists in the controller"""
    syms = user_symbols(p, with_programs)
    if not syms:
        return None
    s, prefix = rng.choice(syms)
    name = prefix + s.name
    kind, typ, mem = s.kind, s.typ, bytes(s.mem)
    total = _count(s.dims)
    sz = lg.elem_size(kind, typ)
    ndim = len([d for d in s.dims if d])
    r = rng.random()
    # ---- BOOL arrays (DWORD)
    if kind == "atomic" and typ == "DWORD":
        nbits = 32 * total
        bits = [b for i in range(total) for b in lg.ref_atomic("DWORD", mem[4 * i:4 * i + 4])]
        loc = {"sym": s, "offset": 0}
        if r < 0.2:
            return name, bits[0], "BOOL", ("boolarr", 0, 1, loc)
        i = rng.choice([0, 1, 31, 32, 33, nbits - 1, rng.randrange(nbits)])
        i = min(i, nbits - 1)
        if r < 0.6 or i == nbits - 1:
            return "%s[%d]" % (name, i), bits[i], "BOOL", ("boolarr", i, 1, loc)
        n = rng.choice([2, 31, 32, 33, 64, nbits - i, rng.randint(2, nbits - i)])
        n = max(2, min(n, nbits - i))
        return "%s[%d]{%d}" % (name, i, n), bits[i:i + n], "BOOL[%d]" % n, ("boolarr", i, n, loc)
    start, idx = 0, ""
    if ndim and r < 0.75:
        idx, start = _index_str(rng, s.dims)
    item = mem[start * sz:]
    base_off = start * sz
    avail = total - start if ndim else 0
    tname = lg.type_name(kind, typ)
    # ---- member paths
    if kind == "struct" and not typ.is_string and rng.random() < 0.55:
        sub = gen_member_path(rng, typ, item[:sz])
        if sub is not None:
            suffix, k2, t2, data, avail2, moff = sub
            tag = name + idx + suffix
            if k2 == "boolmember":
                return tag, data, "BOOL", ("boolmember", moff[1], {"sym": s, "offset": base_off + moff[0]})
            return _finish(rng, tag, k2, t2, data, avail2, {"sym": s, "offset": base_off + moff})
    return _finish(rng, name + idx, kind, typ, item, avail if idx or not ndim else total, {"sym": s, "offset": base_off})


def _finish(rng, tag, kind, typ, data, avail, loc):
    """the addressed item is `data` (bytes from the item to the end of its array); choose plain / {n} / .bit"""
    sz = lg.elem_size(kind, typ)
    tname = lg.type_name(kind, typ)
    r = rng.random()
    if kind == "atomic" and typ == "DWORD":
        bits = lg.ref_atomic("DWORD", data[:4])
        # DWORD members: the value is the list of 32 bools
        return tag, bits[0], "BOOL", ("dwordmember", loc)
    if avail >= 2 and r < 0.35:
        n = rng.choice([2, avail, rng.randint(2, avail)])
        return "%s{%d}" % (tag, n), lg.ref_elements(kind, typ, data, 0, n), "%s[%d]" % (tname, n), ("array", kind, typ, n, loc)
    if kind == "atomic" and typ in ("SINT", "INT", "DINT", "LINT", "USINT", "UINT", "UDINT", "ULINT") and r < 0.6:
        w = 8 * sz
        bit = rng.choice([0, 1, w - 1, rng.randrange(w)])
        v = int.from_bytes(data[:sz], "little")
        return "%s.%d" % (tag, bit), bool(v >> bit & 1), "BOOL", ("bit", typ, bit, loc)
    v = lg.ref_elements(kind, typ, data, 0, 1)[0]
    return tag, v, tname, ("item", kind, typ, loc)


def tag_summary(t):
    return {"tag": t.tag, "value": repr(t.value)[:200], "type": t.type, "error": t.error}
