"""C03 — one result per request, in request order, with failures isolated."""
import core
import logixgen as lg
from props import logix as lx
from props import c02
from props.codec import oracle_eq


def gen_invalid_read(rng, p):
    syms = lx.user_symbols(p)
    s, prefix = rng.choice(syms) if syms else (None, "")
    r = rng.random()
    if s is None or r < 0.2:
        return rng.choice(["NoSuchTag", "nosuch[3]", "Program:Nope.x", "Program:MainProgram.missing", "zz.member", "NoSuchTag{4}"]), "unknown tag"
    name = prefix + s.name
    total = lx._count(s.dims)
    ndim = len([d for d in s.dims if d])
    if r < 0.42:
        # requests that are malformed rather than merely absent: they too "cannot succeed"
        zero = "[" + ",".join("0" for _ in range(ndim)) + "]" if ndim else ""
        width = {"SINT": 8, "USINT": 8, "INT": 16, "UINT": 16, "DINT": 32, "UDINT": 32, "LINT": 64, "ULINT": 64}
        k = rng.choice(["index-text", "index-negative", "count-huge", "count-negative", "bit", "bit", "bit"])
        if k == "index-text":
            return name + rng.choice(["[a]", "[1,x]", "[0]x", "[", "[]", "[1.5]"]), "malformed index"
        if k == "index-negative":
            return name + "[-1]", "index out of range"
        if k == "count-huge":
            return "%s%s{%d}" % (name, zero, rng.choice([65536, 70000, 10 ** 9])), "count out of range"
        if k == "count-negative":
            return "%s%s{%d}" % (name, zero, rng.choice([-1, -2, -70000])), "count out of range"
        if s.kind == "atomic" and s.typ in width:
            return "%s%s.%d" % (name, zero, width[s.typ] + rng.choice([0, 1, 8, 36, 100])), "bit number beyond the integer's width"
        if s.kind == "atomic" and s.typ == "DWORD":
            return "%s.%d" % (name, rng.choice([0, 5, 31, 40])), "bit suffix on a BOOL array"
        if s.kind == "atomic" and s.typ in ("REAL", "LREAL"):
            return "%s%s.%d" % (name, zero, rng.choice([0, 3])), "bit of a non-integer"
        if s.kind == "struct":
            return "%s%s.%d" % (name, zero, rng.choice([0, 3, 40])), "bit of a structure"
    if s.kind == "struct" and not s.typ.is_string and r < 0.45:
        idx = "[0]" * 0 if not ndim else "[" + ",".join("0" for _ in range(ndim)) + "]"
        return name + idx + ".NoSuchMember", "unknown member"
    if ndim and r < 0.75:
        ds = [d for d in s.dims if d]
        bad = list(rng.randrange(d) for d in ds)
        bad[rng.randrange(len(bad))] = ds[0] * ds[-1] * 3 + 7 if len(ds) == 1 else max(ds) + 5
        if s.kind == "atomic" and s.typ == "DWORD":
            # (far beyond the array: the number of 32-bit words to ask for no longer fits the request's count field)
            bad = [32 * total + rng.choice([0, 1, 40, 2097120 - 32 * total, 2097152, 10 ** 9])]
        return name + "[" + ",".join(map(str, bad)) + "]", "index out of range"
    if ndim:
        if s.kind == "atomic" and s.typ == "DWORD":
            return "%s[0]{%d}" % (name, 32 * total + rng.choice([1, 32, 33])), "count out of range"
        return "%s{%d}" % (name, total + rng.choice([1, 2, 50])), "count out of range"
    return name + "[2]", "index on a scalar"


def gen_invalid_write(rng, p):
    r = rng.random()
    if r < 0.35:
        t, why = gen_invalid_read(rng, p)
        return t, rng.choice([1, 0, [1, 2, 3, 4]]) if "{" not in t else [1] * 300, why
    w = c02.gen_write(rng, p)
    if w is None:
        return "NoSuchTag", 1, "unknown tag"
    tag, v, desc = w
    k = desc[0]
    if k == "array":
        return tag, v[:-1], "too-short value list"
    if k == "item" and desc[1] == "atomic" and desc[2] in c02.INT_RANGE:
        lo, hi = c02.INT_RANGE[desc[2]]
        return tag, rng.choice([hi + 1, lo - 1, "text", None, 1.5]), "unencodable value"
    if k == "item" and desc[1] == "atomic" and desc[2] in ("REAL", "LREAL"):
        return tag, rng.choice(["text", None, {"a": 1}]), "unencodable value"
    if k == "boolarr" and desc[2] > 1:
        i = desc[1] // 32 * 32 + rng.choice([1, 5, 31])
        return "%s[%d]{%d}" % (tag.split("[")[0], i, 32), [True] * 32, "misaligned BOOL-array write"
    if k == "item" and desc[1] == "struct" and not desc[2].is_string:
        bad = dict(v) if isinstance(v, dict) else {}
        if bad:
            bad.pop(next(iter(bad)))
        return tag, bad, "unencodable value"
    return "NoSuchTag.x", 1, "unknown tag"


def run_index_field_edge(ctx, model):
    """array indexes around the largest number a request path can carry (a 32-bit member segment): 2**32 - 1 is sent
    and refused by the controller (falsy Tag, the neighbour unaffected); 2**32 and beyond cannot be encoded — the
    property wants a falsy Tag with an error for that request and the neighbour's result untouched"""
    from props.c04 import sized_project
    rng = ctx.rng
    p = sized_project(rng, [(40, "arr"), (8, "d1")])
    sess = lx.Session(model, p, conn_large=rng.random() < 0.5)
    if sess.open_error is not None:
        sess.close()
        return
    calls = []
    for idx in (2 ** 32 - 1, 2 ** 32, 2 ** 32 + 1, 99999999999, 2 ** 64):
        calls.append(("read", ["arr[%d]" % idx, "d1"]))
        calls.append(("read", ["d1", "arr[%d]" % idx]))
        calls.append(("read", ["arr[%d]" % idx]))
        calls.append(("write", [("arr[%d]" % idx, 1), ("d1", 2)]))
    for kind, args in calls:
        ctx.case("index-field-edge", ("ife", kind, repr(args)))
        case = {"call": "%s(%s)" % (kind, ", ".join(repr(a) for a in args))}
        try:
            res = core.with_budget(60, sess.d.read if kind == "read" else sess.d.write, *args)
        except BaseException as e:  # noqa
            if isinstance(e, (KeyboardInterrupt, SystemExit)):
                raise
            big = any(int(str(a if kind == "read" else a[0]).split("[")[1].rstrip("]")) >= 2 ** 32
                      for a in args if "[" in str(a if kind == "read" else a[0]))
            sig = "call-raises:%s:index-beyond-the-32-bit-path-field" % core.exn_class(e) if big and core.exn_class(e) == "data" \
                else "%s-raises:%s" % (kind, core.exn_class(e).split(":")[-1])
            ctx.violation(sig, case, repr(e)[:200])
            continue
        rl = res if isinstance(res, list) else [res]
        if len(rl) != len(args):
            ctx.violation("result-count", case, "%d results for %d requests" % (len(rl), len(args)))
            continue
        for a, t in zip(args, rl):
            name = a if kind == "read" else a[0]
            if name.startswith("arr["):
                if t or not t.error:
                    ctx.violation("out-of-range-index-not-refused", case, repr(t)[:200])
            elif not t or (kind == "read" and t.value != bytes(next(s_ for s_ in p["controller"] if s_.name == "d1").mem)[0] - (256 if bytes(next(s_ for s_ in p["controller"] if s_.name == "d1").mem)[0] > 127 else 0)):
                ctx.violation("neighbour-of-a-refused-request-disturbed", case, repr(t)[:200])
    sess.close()


def run(ctx, model):
    run_index_field_edge(ctx, model)
    from props import logixdrv
    logixdrv.run_reads(ctx, model, "C03")
    logixdrv.run_writes(ctx, model, "C03")
    logixdrv.run_altered(ctx, model, "C03")
    # a request the controller refuses in the middle of its transfer is a refused request
    from props import c02 as _c02
    _c02.run_lost_fragment(ctx, model)
    from props import kernels
    kernels.run_plan(ctx, model, "C03")
    kernels.run_multi(ctx, model, "C03")
    rng = ctx.rng
    n = ctx.budget(80, 900)
    for i in range(n):
        p = lg.gen_project(rng)
        if rng.random() < 0.15:
            p["micro800"] = True
        sess = lx.Session(model, p, conn_large=rng.random() < 0.6)
        if sess.open_error is not None:
            sess.close()
            continue
        total = rng.choice([1, 1, 2, 3, 5, 8, 20, 60, 120]) if ctx.tier == "thorough" else rng.choice([1, 1, 2, 3, 5, 8, 20, 45])
        # ---------------- reads
        reqs = []
        for _ in range(total):
            if rng.random() < 0.35:
                t, why = gen_invalid_read(rng, p)
                reqs.append((t, None, None, why))
            else:
                r = lx.gen_read(rng, p)
                if r:
                    reqs.append((r[0], r[1], r[2], None))
        if not reqs:
            sess.close()
            continue
        if len(reqs) > 1 and rng.random() < 0.4:
            reqs.insert(rng.randrange(len(reqs)), rng.choice(reqs))
        case = {"seed": ctx.seed, "index": i, "project": lx.project_summary(p), "micro800": p.get("micro800", False),
                "tags": [r[0] for r in reqs], "invalid": [r[0] for r in reqs if r[3]]}
        try:
            res = core.with_budget(300, sess.d.read, *[r[0] for r in reqs])
        except BaseException as e:  # noqa
            if isinstance(e, (KeyboardInterrupt, SystemExit)):
                raise
            ctx.violation("read-raises:" + core.exn_class(e).split(":")[-1], case, repr(e)[:300])
            sess.close()
            continue
        check_shape(ctx, case, reqs, res, "read")
        rl = res if isinstance(res, list) else [res]
        for (tag, want, wtype, why), got in zip(reqs, rl):
            ctx.count("read/" + (why or "valid"))
            if why:
                if got or not got.error:
                    ctx.violation("invalid-read-not-falsy-with-error:" + why, dict(case, tag=tag), lx.tag_summary(got))
            else:
                if not got:
                    ctx.violation("valid-read-affected-by-other-requests", dict(case, tag=tag), lx.tag_summary(got))
                elif not oracle_eq(want, got.value):
                    ctx.violation("valid-read-wrong-value-in-mixed-call", dict(case, tag=tag), "expected %r got %r" % (repr(want)[:100], repr(got.value)[:100]))
                elif got.tag != tag.split("{")[0]:
                    ctx.violation("result-carries-wrong-tag-name", dict(case, tag=tag), "Tag.tag = %r" % got.tag)
        ctx.case("mixed-reads", ("r", i, tuple(case["tags"])))
        # ---------------- writes
        wreqs, taken = [], []
        for _ in range(total):
            if rng.random() < 0.35:
                t, v, why = gen_invalid_write(rng, p)
                isym = lx._find_symbol(p, t.split("{")[0].split("[")[0].split(".")[0] if not t.startswith("Program:") else ".".join(t.split("{")[0].split("[")[0].split(".")[:2]))
                if isym is not None:
                    if any(k == (isym.scope, isym.inst) for k in taken):
                        continue
                    taken.append((isym.scope, isym.inst))
                wreqs.append((t, v, None, why))
            else:
                w = c02.gen_write(rng, p)
                if w:
                    sym, off, ln = c02.addressed_range(w[2])
                    if any(k == (sym.scope, sym.inst) for k in taken):
                        continue
                    taken.append((sym.scope, sym.inst))
                    wreqs.append((w[0], w[1], w[2], None))
        if wreqs:
            wcase = dict(case, tags=[r[0] for r in wreqs], invalid=[r[0] for r in wreqs if r[3]], values=[repr(r[1])[:60] for r in wreqs])
            try:
                wres = core.with_budget(300, sess.d.write, *[(t, v) for t, v, _, _ in wreqs])
            except BaseException as e:  # noqa
                if isinstance(e, (KeyboardInterrupt, SystemExit)):
                    raise
                ctx.violation("write-raises:" + core.exn_class(e).split(":")[-1], wcase, repr(e)[:300])
                sess.close()
                continue
            check_shape(ctx, wcase, wreqs, wres, "write")
            wl = wres if isinstance(wres, list) else [wres]
            after, _ = sess.mem()
            for (tag, v, desc, why), got in zip(wreqs, wl):
                ctx.count("write/" + (why or "valid"))
                if why:
                    if got or not got.error:
                        ctx.violation("invalid-write-not-falsy-with-error:" + why, dict(wcase, tag=tag), lx.tag_summary(got))
                else:
                    if not got:
                        ctx.violation("valid-write-affected-by-other-requests", dict(wcase, tag=tag), lx.tag_summary(got))
                    else:
                        sym, off, ln = c02.addressed_range(desc)
                        now = c02.value_now(desc, after[(sym.scope, sym.inst)])
                        if not oracle_eq(c02.canonical(desc, v), now):
                            ctx.violation("valid-write-not-stored-in-mixed-call", dict(wcase, tag=tag), "memory differs")
            ctx.case("mixed-writes", ("w", i, tuple(wcase["tags"])))
        if i < 2:
            ctx.sample({"tags": case["tags"][:8], "results": [lx.tag_summary(t) for t in rl[:8]]})
        sess.close()
    # Tag truthiness contract
    from pycomm3 import Tag
    for v in (None, 0, False, "", [], 1, "x"):
        for e in (None, "", "err"):
            t = Tag("t", v, None, e)
            ctx.case("tag-truthiness", ("tt", repr(v), repr(e)))
            if bool(t) != (v is not None and e is None):
                ctx.violation("tag-truthiness", {"value": repr(v), "error": repr(e)}, "bool(Tag) = %s" % bool(t))


def check_shape(ctx, case, reqs, res, what):
    if len(reqs) == 1:
        if isinstance(res, list):
            ctx.violation("single-request-returned-a-list", case, what)
    else:
        if not isinstance(res, list) or len(res) != len(reqs):
            ctx.violation("result-count-differs-from-request-count", case, "%s: %d requests, result %s" % (
                what, len(reqs), len(res) if isinstance(res, list) else type(res).__name__))


def replay(ctx, model, data):
    c = core.Ctx("C03", data.get("tier", "quick"), data.get("seed", 0))
    run(c, model)
    return any(v["sig"] == data["sig"] for v in c.violations)
