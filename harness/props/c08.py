from props import codec


def run(ctx, model):
    codec.run(ctx, model, "C08")


def replay(ctx, model, data):
    return codec.replay(ctx, model, data, "C08")
