"""C17 — connected messages carry fresh sequence counts.
Counter level: the real `cycle` generator vs the model (hash of long prefixes, values at sampled indices).
Driver level: the sequence counts in the connected frames of real-driver transcripts (transcripts.py)."""
import core
import fakesock


def impl_hash(n):
    from pycomm3.util import cycle
    g = cycle(65535, start=1)
    acc = 0
    for i in range(n):
        v = next(g)
        acc = (acc * 31 + (i + 1) * v) % 1000000007
    return acc


def run(ctx, model):
    from pycomm3.util import cycle
    lines, pend = [], []
    lens = [0, 1, 2, 65534, 65535, 65536, 65537, 131070, 131071] + ([140000] if ctx.tier == "quick" else [140000, 400000])
    for n in lens:
        h = impl_hash(n)
        ctx.case("counter-hash", ("hash", n))
        lines.append("seq.hash %d" % n)
        pend.append(("counter-hash", n, "ok %d" % h))
    # values + oracle on the generator itself: range, consecutive values differ, also across the wrap
    g = cycle(65535, start=1)
    prev = None
    total = ctx.budget(200000, 700000)
    for k in range(total):
        v = next(g)
        if not (1 <= v <= 65535):
            ctx.violation("counter-out-of-16-bit-range", {"k": k, "value": v}, "draw %d = %d" % (k, v))
            break
        if prev is not None and v == prev:
            ctx.violation("counter-repeats-consecutive-value", {"k": k, "value": v}, "draws %d and %d both %d" % (k - 1, k, v))
            break
        prev = v
        if k % 9973 == 0 or 65530 <= k % 65535 or k % 65535 <= 3:
            ctx.case("counter-nth", ("nth", k))
            lines.append("seq.nth %d" % k)
            pend.append(("counter-nth", k, "ok %d" % v))
    ctx.evaluations += total
    ctx.sample({"counter_draws_checked": total, "hash_prefix_lengths": lens})
    # driver level
    try:
        from props import transcripts
    except ImportError:
        transcripts = None
    if transcripts is not None:
        transcripts.run_c17(ctx, model)
    else:
        ctx.notes.append("driver-level sequence monitor not built yet: only the counter is checked against the implementation")
    run_logix_histories(ctx, model)
    run_redundant_open(ctx, model)
    run_fragment_wrap(ctx, model)
    run_status_histories(ctx, model)
    run_single_request_groups(ctx, model)
    run_repeated_calls(ctx, model)
    run_slc_operations(ctx, model)
    run_two_drivers(ctx, model)
    run_burned_counts(ctx, model)
    from props import c02
    c02.run_lost_fragment(ctx, model)      # a refused fragment in the middle of a fragmented write: counts on the wire
    outs = model.batch(lines)
    for (stream, k, want), out in zip(pend, outs):
        if out != want:
            ctx.mismatch(stream, {"k": k}, want, out)


def run_redundant_open(ctx, model):
    """open() on a driver that is already open keeps the connection: the counts must keep running on it"""
    import re
    import struct
    import fakesock
    import pycomm3.cip_driver as cd
    from props import transcripts as tr
    rng = ctx.rng
    for before in (1, 2, 3, 7):
        for again in (1, 2):
            scn, _, _ = tr.gen_base(rng, policy=(True, True, True), generic=(0, (), b"\x01"))
            assert model.ask("target.new " + scn) == "ok"
            d = cd.CIPDriver("10.0.0.1/bp/0")
            sock = fakesock.TargetSocket(model)
            d._sock = sock
            cd.CIPDriver.open(d)
            for _ in range(before):
                d.generic_message(service=1, class_code=0x70, instance=1, connected=True, name="g")
            for _ in range(again):
                d.open()                      # already open: returns True, nothing else
            for _ in range(2):
                d.generic_message(service=1, class_code=0x70, instance=1, connected=True, name="g")
            log = model.ask("target.log")
            frames = [f for f in sock.frames if f[:2] == b"\x70\x00" and len(f) >= 46]
            seqs = [struct.unpack_from("<H", f, 44)[0] for f in frames]
            ctx.case("redundant-open", ("ro", before, again))
            case = {"history": "open, %d connected messages, %d more open() calls, 2 connected messages" % (before, again), "counts": seqs}
            if any(seqs[j] == seqs[j - 1] for j in range(1, len(seqs))):
                ctx.violation("sequence-count-repeated", case, "counts on the wire: %s" % seqs)
            texts = ["".join(chr(int(c)) for c in m.group(1).split()) for m in re.finditer(r"\(violation \(s([0-9 ]*)\)\)", log)]
            if any("repeated on consecutive" in t for t in texts):
                ctx.violation("target-saw-duplicate-sequence-count", case, "the reference target's duplicate detection fired")
            try:
                d.close()
            except Exception:  # noqa
                pass


def run_fragment_wrap(ctx, model):
    """A call that builds two packets, the first a fragmented read whose transfer takes exactly 65535·k + 1 rounds (a
    controller may answer "more to come" with as little data as it likes; here the continuation is stalled).  Every
    round draws a fresh count, the second packet carries the count it drew when it was BUILT, before the loop: the last
    round and the second packet then carry the same count.  The rounds between the first reply and the last stalled one
    are answered locally from the first stalled reply (only the echoed count differs) to keep the run short."""
    import struct
    from props.c04 import sized_project
    from props import logix as lx
    rng = ctx.rng
    for total in ([65536] if ctx.tier == "quick" else [65536, 65535, 65537, 2 * 65535 + 1]):
        p = sized_project(rng, [(1200, "big"), (1200, "big2")], reads=[])
        sess = lx.Session(model, p, conn_large=False)
        if sess.open_error is not None:
            sess.close()
            continue
        # frames of the healthy transfer of the first tag
        n0 = len(sess.sock.frames)
        sess.d.read("big{1200}")
        healthy = len([f for f in sess.sock.frames[n0:] if f[:2] == b"\x70\x00" and len(f) >= 48 and f[46] == 0x52])
        rounds = total - healthy + 1        # stalled replies + the first (real, but emptied) one
        st = {"n": 0, "template": None}

        def stalled(reply):
            tl = 4 if reply[50:52] == b"\xa0\x02" else 2
            out = bytearray(reply[:50 + tl])
            out[48] = 6
            struct.pack_into("<H", out, 2, len(out) - 24)
            struct.pack_into("<H", out, 42, len(out) - 44)
            return bytes(out)

        def flt(reply, st=st):
            if st["template"] is None and len(reply) > 50 and reply[:2] == b"\x70\x00" and reply[46] == 0xD2 and reply[48] in (0, 6):
                st["template"] = stalled(reply)
                st["n"] += 1
                return st["template"]
            return reply

        def answer(msg, st=st, rounds=rounds):
            # continuation requests of the stalled transfer (same offset 0): answered from the template
            if st["template"] is not None and st["n"] < rounds - 1 and len(msg) > 47 and msg[:2] == b"\x70\x00" and msg[46] == 0x52:
                st["n"] += 1
                out = bytearray(st["template"])
                out[44:46] = msg[44:46]
                return bytes(out)
            return None
        sess.sock.reply_filter = flt
        sess.sock.answer = answer
        n0 = len(sess.sock.frames)
        try:
            core.with_budget(300, sess.d.read, "big{1200}", "big2{1200}")
        except BaseException as e:  # noqa
            if isinstance(e, (KeyboardInterrupt, SystemExit)):
                raise
        frames = [f for f in sess.sock.frames[n0:] if f[:2] == b"\x70\x00" and len(f) >= 48]
        seqs = [struct.unpack_from("<H", f, 44)[0] for f in frames]
        ctx.case("fragment-wrap", ("fragwrap", total))
        ctx.count("fragment-wrap/first-transfer=%d/frames=%d" % (total, len(seqs)))
        case = {"call": "read('big{1200}', 'big2{1200}')", "frames_of_first_transfer": total, "of_which_stalled": rounds - 1, "connection_size": 500}
        for j in range(1, len(seqs)):
            if seqs[j] == seqs[j - 1]:
                # the boundary between the last round of the first transfer and the first frame of the second packet
                # the second packet carries the count it drew when it was built; after 65535·k further draws a fresh count
                # equals it: between the first transfer's last round and the second packet (first transfer of 65535·k + 1
                # messages), or — the second packet being a fragmented read itself — between its first and its second
                # message (first transfer of 65535·k messages)
                first_of_second = st["n"] >= rounds - 1 and ((j == total and total % 65535 == 1) or (j == total + 1 and total % 65535 == 0))
                sig = "sequence-count-repeated:packet-built-before-a-transfer-of-65535k-rounds" if first_of_second else "sequence-count-repeated"
                ctx.violation(sig, dict(case, frame_index=j),
                              "count %d on two consecutive connected messages (frames %d and %d of the call, services %#x, %#x)"
                              % (seqs[j], j - 1, j, frames[j - 1][46], frames[j][46]))
                break
        sess.sock.answer = None
        sess.sock.reply_filter = None
        sess.close()


def _wire_counts(frames):
    import struct
    fs = [f for f in frames if f[:2] == b"\x70\x00" and len(f) >= 46]
    return fs, [struct.unpack_from("<H", f, 44)[0] for f in fs]


def run_status_histories(ctx, model):
    """connected histories against a target that answers with a CIP error status (every status byte in the thorough tier):
    whatever the answers are — also 'resource unavailable' / 'busy' kinds of status a driver might want to retry on —
    consecutive connected messages carry different counts and the target's duplicate detection stays silent."""
    import pycomm3.cip_driver as cd
    from props import transcripts as tr
    rng = ctx.rng
    statuses = list(range(256)) if ctx.tier == "thorough" else sorted({0, 1, 2, 3, 4, 5, 6, 8, 0x0C, 0x10, 0x1E, 0x26, 0xFF} | {rng.randrange(256) for _ in range(6)})
    for st in statuses:
        scn, _, _ = tr.gen_base(rng, policy=(True, True, True), generic=(st, rng.choice([(), (), (0x0100,)]), b"" if st else b"\x01\x02"))
        assert model.ask("target.new " + scn) == "ok"
        shared = tr.SharedNet(model, {})
        d = cd.CIPDriver("10.0.0.1/bp/0")
        d._sock = tr.NetSocket(shared)
        ctx.case("status-history", ("sth", st))
        try:
            d.open()
            for k in range(6):
                d.generic_message(service=rng.choice([0x0E, 0x01, 0x4C]), class_code=0x70, instance=1, attribute=1, connected=True, name="g")
            d.close()
        except BaseException as e:  # noqa
            if isinstance(e, (KeyboardInterrupt, SystemExit)):
                raise
            ctx.count("status-history/raised/" + core.exn_class(e))
        log = model.ask("target.log")
        frames, seqs = _wire_counts(shared.frames)
        case = {"target_answers_with_status": st, "history": "open, 6 connected generic messages, close"}
        for j in range(1, len(seqs)):
            if seqs[j] == seqs[j - 1]:
                ctx.violation("sequence-count-repeated", dict(case, frame_index=j), "count %d on two consecutive connected messages" % seqs[j])
                break
        if "repeated on consecutive" in log:
            ctx.violation("target-duplicate-detection-fired", case, log[log.index("sequence count"):][:120])


def run_single_request_groups(ctx, model):
    """multi-tag reads and writes whose requests each need a packet of their own (every array fills more than half of the
    connection), and repeated reads of one good and one unknown tag: packets that carry a single request, back to back."""
    from props.c04 import sized_project
    from props import logix as lx
    rng = ctx.rng
    for i in range(ctx.budget(6, 40)):
        n = rng.choice([2, 3, 4])
        size = rng.choice([300, 330, 400])
        p = sized_project(rng, [(size, "a%d" % k) for k in range(n)], reads=[])
        sess = lx.Session(model, p, conn_large=False)
        if sess.open_error is not None:
            sess.close()
            continue
        sess.log()
        n0 = max(0, len(sess.sock.frames) - 1)
        calls = []
        try:
            for rep in range(rng.choice([1, 2, 3])):
                r = rng.random()
                if r < 0.4:
                    tags = ["a%d{%d}" % (k, size) for k in range(n)]
                    calls.append(["read"] + tags)
                    core.with_budget(60, sess.d.read, *tags)
                elif r < 0.7:
                    calls.append(["read", "a0", "no_such_tag"])
                    for _ in range(3):
                        core.with_budget(60, sess.d.read, "a0", "no_such_tag")
                else:
                    vals = [("a%d{%d}" % (k, size), [k] * size) for k in range(n)]
                    calls.append(["write"] + [t for t, _ in vals])
                    core.with_budget(60, sess.d.write, *vals)
        except BaseException as e:  # noqa
            if isinstance(e, (KeyboardInterrupt, SystemExit)):
                raise
        frames, seqs = _wire_counts(sess.sock.frames[n0:])
        ctx.case("single-request-groups", ("srg", i, repr(calls)))
        case = {"arrays": n, "bytes_each": size, "connection_size": 500, "calls": calls}
        for j in range(1, len(seqs)):
            if seqs[j] == seqs[j - 1]:
                ctx.violation("sequence-count-repeated", dict(case, frame_index=j),
                              "count %d on two consecutive connected messages (services %#x, %#x)" % (seqs[j], frames[j - 1][46], frames[j][46]))
                break
        log = sess.log()
        if "repeated on consecutive" in str(log):
            ctx.violation("target-duplicate-detection-fired", case, str(log)[:200])
        sess.close()


def run_repeated_calls(ctx, model):
    """the same call again and again on one driver — a polling loop: `read(t)` three times, `write((t, v))` three times,
    a two-tag read three times, generic messages with identical arguments: nothing of an earlier call's packets may go
    out again under its old count"""
    import logixgen as lg
    from props import logix as lx
    from props import c02
    rng = ctx.rng
    for i in range(ctx.budget(8, 60)):
        p = lg.gen_project(rng)
        if rng.random() < 0.2:
            p["micro800"] = True
        sess = lx.Session(model, p, conn_large=rng.random() < 0.6)
        if sess.open_error is not None:
            sess.close()
            continue
        sess.log()
        n0 = max(0, len(sess.sock.frames) - 1)
        calls = []
        try:
            for _ in range(rng.choice([2, 3])):
                r = rng.random()
                if r < 0.45:
                    tags = [t[0] for t in (lx.gen_read(rng, p) for _ in range(rng.choice([1, 1, 2]))) if t]
                    if tags:
                        calls.append(["read x3"] + tags)
                        for _ in range(3):
                            core.with_budget(60, sess.d.read, *tags)
                elif r < 0.8:
                    ws = [w for w in (c02.gen_write(rng, p) for _ in range(rng.choice([1, 1, 2]))) if w]
                    if ws:
                        calls.append(["write x3"] + [w[0] for w in ws])
                        for _ in range(3):
                            core.with_budget(60, sess.d.write, *[(w[0], w[1]) for w in ws])
                else:
                    calls.append(["generic x3"])
                    for _ in range(3):
                        sess.d.generic_message(service=1, class_code=0x70, instance=1, connected=True, name="g")
        except BaseException as e:  # noqa
            if isinstance(e, (KeyboardInterrupt, SystemExit)):
                raise
        frames, seqs = _wire_counts(sess.sock.frames[n0:])
        ctx.case("repeated-calls", ("rep", i, repr(calls)))
        case = {"index": i, "calls": calls}
        for j in range(1, len(seqs)):
            if seqs[j] == seqs[j - 1]:
                ctx.violation("sequence-count-repeated", dict(case, frame_index=j),
                              "count %d on two consecutive connected messages (services %#x, %#x)" % (seqs[j], frames[j - 1][46], frames[j][46]))
                break
        log = sess.log()
        if "repeated on consecutive" in str(log):
            ctx.violation("target-duplicate-detection-fired", case, str(log)[:200])
        sess.close()


def run_slc_operations(ctx, model):
    """every connected operation of the SLC driver — reads, writes, processor type, data-log queue, file directory —
    on one connection: consecutive messages carry different counts"""
    from props import slcdrv
    rng = ctx.rng
    for i in range(ctx.budget(6, 40)):
        files, cfg = slcdrv.gen_setup(rng)
        pair = slcdrv.Pair(model, cfg)
        if pair.open_error is not None:
            pair.close()
            continue
        n0 = max(0, len(pair.sock.frames) - 1)
        done = []
        ops = ["read", "write", "ptype", "datalog", "filedir", "read", "datalog"]
        rng.shuffle(ops)
        for op in ops[:rng.choice([3, 4, 6])]:
            done.append(op)
            try:
                if op == "read":
                    a = [slcdrv.gen_read_address(rng, files)[0] for _ in range(rng.choice([1, 2, 3]))]
                    core.with_budget(30, pair.d.read, *a)
                elif op == "write":
                    it = slcdrv.gen_write_item(rng, files)[0]
                    core.with_budget(30, pair.d.write, (it[0], it[1]))
                elif op == "ptype":
                    core.with_budget(30, pair.d.get_processor_type)
                elif op == "datalog":
                    core.with_budget(30, pair.d.get_datalog_queue, rng.choice([1, 2, 3, 5]), rng.choice([0, 1, 7]))
                else:
                    core.with_budget(30, pair.d.get_file_directory)
            except BaseException as e:  # noqa
                if isinstance(e, (KeyboardInterrupt, SystemExit)):
                    raise
        frames, seqs = _wire_counts(pair.sock.frames[n0:])
        ctx.case("slc-operations", ("slcops", i, tuple(done)))
        for op in done:
            ctx.count("slc-operations/" + op)
        case = {"index": i, "operations": done}
        for j in range(1, len(seqs)):
            if seqs[j] == seqs[j - 1]:
                ctx.violation("sequence-count-repeated", dict(case, frame_index=j),
                              "count %d on two consecutive connected messages of the SLC driver" % seqs[j])
                break
        log = model.ask("target.log")
        if "repeated on consecutive" in log:
            ctx.violation("target-duplicate-detection-fired", case, log[log.index("sequence count"):][:120])
        pair.close()


def run_burned_counts(ctx, model):
    """calls that draw a count and then fail before anything is sent (SLC: `read('N7:0{200}')` passes the address
    parser, draws the PCCC transaction number from the same generator and then fails to encode the byte size 400):
    k such calls between two good reads.  With k + 2 a multiple of 65535 the second good read carries the count of
    the first — the known finding C17-count-burned-by-failed-call (model counterexample `SEx.ce` of
    seq_never_repeats_slc); every other k must stay clean."""
    from props import slcdrv
    rng = ctx.rng
    ks = [65533] if ctx.tier == "quick" else [65533, 65532, 65534, 2 * 65535 - 2, 1000]
    for k in ks:
        files, cfg = slcdrv.gen_setup(rng)
        # a designed history: plain open, an address the parser accepts (whether the file exists does not matter for
        # the counts: the request goes out and is answered)
        from props import c18
        cfg["mode"] = "open"
        cfg.pop("advance", None)
        cfg.pop("warmup", None)
        cfg["table"] = c18.table_sx(files)
        pair = slcdrv.Pair(model, cfg)
        if pair.open_error is not None:
            pair.close()
            ctx.count("burned-counts/open-failed")
            continue
        n0 = max(0, len(pair.sock.frames) - 1)
        failed = 0
        a = "N7:0"
        try:
            core.with_budget(30, pair.d.read, a)
            for _ in range(k):
                try:
                    pair.d.read("N7:0{200}")
                except Exception:  # noqa
                    failed += 1
            core.with_budget(30, pair.d.read, a)
        except BaseException as e:  # noqa
            if isinstance(e, (KeyboardInterrupt, SystemExit)):
                raise
            ctx.count("burned-counts/raised/" + core.exn_class(e))
        frames, seqs = _wire_counts(pair.sock.frames[n0:])
        ctx.case("burned-counts", ("burned", k))
        ctx.count("burned-counts/failed-calls=%d" % failed)
        case = {"history": "read(%r), %d x read('N7:0{200}') [each fails with DataError before sending], read(%r)" % (a, k, a),
                "failed_calls": failed}
        for j in range(1, len(seqs)):
            if seqs[j] == seqs[j - 1]:
                expected = failed == k and (k + 2) % 65535 == 0 and j == len(seqs) - 1
                sig = "sequence-count-repeated:after-65535k-minus-2-calls-that-drew-a-count-and-sent-nothing" if expected else "sequence-count-repeated"
                ctx.violation(sig, dict(case, frame_index=j), "count %d on two consecutive connected messages of the SLC driver" % seqs[j])
                break
        pair.close()


def run_two_drivers(ctx, model):
    """two driver objects in one process, each with its own connection: what one of them sends must not move the other's
    counter.  Driver B sends exactly 65534 (and 65535, 2·65535 − 1) messages between two messages of driver A; B's
    traffic is answered locally from its first reply to keep the run short."""
    import struct
    import pycomm3.cip_driver as cd
    from props import transcripts as tr
    rng = ctx.rng
    for between in ([65534] if ctx.tier == "quick" else [65534, 65535, 2 * 65535 - 1, 1000]):
        scn, _, _ = tr.gen_base(rng, policy=(True, True, True), generic=(0, (), b"\x01"))
        assert model.ask("target.new " + scn) == "ok"
        socks = []
        drivers = []
        try:
            for _ in range(2):
                d = cd.CIPDriver("10.0.0.1/bp/0")
                sock = fakesock.TargetSocket(model, {})
                d._sock = sock
                d.open()
                socks.append(sock)
                drivers.append(d)
            a, b = drivers
            a.generic_message(service=1, class_code=0x70, instance=1, connected=True, name="a")
            b.generic_message(service=1, class_code=0x70, instance=1, connected=True, name="b")
            template = [r for r in socks[1].replies if r and r[:2] == b"\x70\x00"][-1]

            def answer(msg, template=template):
                if len(msg) > 46 and msg[:2] == b"\x70\x00":
                    out = bytearray(template)
                    out[44:46] = msg[44:46]
                    return bytes(out)
                return None
            socks[1].answer = answer
            for _ in range(between - 1):
                b.generic_message(service=1, class_code=0x70, instance=1, connected=True, name="b")
            socks[1].answer = None
            a.generic_message(service=1, class_code=0x70, instance=1, connected=True, name="a")
            a.generic_message(service=1, class_code=0x70, instance=1, connected=True, name="a")
        except BaseException as e:  # noqa
            if isinstance(e, (KeyboardInterrupt, SystemExit)):
                raise
            ctx.count("two-drivers/raised/" + core.exn_class(e))
        ctx.case("two-drivers", ("two", between))
        frames, seqs = _wire_counts(socks[0].frames if socks else [])
        case = {"driver_a": "message, (driver B sends %d messages on its own connection), message, message" % between}
        for j in range(1, len(seqs)):
            if seqs[j] == seqs[j - 1]:
                ctx.violation("sequence-count-repeated", dict(case, frame_index=j), "driver A's connection sees count %d twice in a row" % seqs[j])
                break
        log = model.ask("target.log")
        if "repeated on consecutive" in log:
            ctx.violation("target-duplicate-detection-fired", case, log[log.index("sequence count"):][:120])
        for d in drivers:
            try:
                d.close()
            except Exception:  # noqa
                pass


def run_logix_histories(ctx, model):
    """LogixDriver histories: reads and writes that expand into multi-service, fragmented and bit-write packets (several
    bits of one integer in one call, duplicates), uploads; the counter is moved close to the wrap in some sessions.
    Oracles: consecutive connected frames on the wire carry different counts; the reference target's duplicate
    detection never fires."""
    import re
    import struct
    import logixgen as lg
    from props import logix as lx
    from props import c02
    rng = ctx.rng
    # a fragmented read whose k-th continuation is stalled (status 6, no data): every frame still carries a fresh count
    from props.c04 import sized_project
    import struct as _st
    for k in range(ctx.budget(4, 12)):
        size = rng.choice([1200, 1500, 2600])
        p = sized_project(rng, [(size, "big")], reads=rng.choice([[], [100], [333]]))
        sess = lx.Session(model, p, conn_large=False)
        if sess.open_error is not None:
            sess.close()
            continue
        if rng.random() < 0.5:
            for _ in range(65535 - rng.randint(2, 40)):
                next(sess.d._sequence)
            sess.d.generic_message(service=1, class_code=0x70, instance=1, connected=True, name="sync")
        st = {"seen": 0, "done": False}

        def flt(reply, st=st, k=k):
            if len(reply) > 50 and reply[:2] == b"\x70\x00" and reply[46] == 0xD2 and reply[48] == 6 and not st["done"]:
                st["seen"] += 1
                if st["seen"] > k:
                    st["done"] = True
                    tl = 4 if reply[50:52] == b"\xa0\x02" else 2
                    out = bytearray(reply[:50 + tl])
                    _st.pack_into("<H", out, 2, len(out) - 24)
                    _st.pack_into("<H", out, 42, len(out) - 44)
                    return bytes(out)
            return reply
        sess.sock.reply_filter = flt
        n0 = max(0, len(sess.sock.frames) - 1)
        try:
            got = core.with_budget(60, sess.d.read, "big{%d}" % size)
        except BaseException as e:  # noqa
            if isinstance(e, (KeyboardInterrupt, SystemExit)):
                raise
            got = None
        frames = [f for f in sess.sock.frames[n0:] if f[:2] == b"\x70\x00" and len(f) >= 46]
        seqs = [_st.unpack_from("<H", f, 44)[0] for f in frames]
        ctx.case("stalled-fragment", ("stall", k, size))
        case = {"tag_bytes": size, "stalled_continuation": k, "fragment_schedule": p["reads"], "stall_injected": st["done"]}
        for j in range(1, len(seqs)):
            if seqs[j] == seqs[j - 1]:
                ctx.violation("sequence-count-repeated", dict(case, frame_index=j),
                              "count %d on two consecutive connected messages (services %#x, %#x)" % (seqs[j], frames[j - 1][46], frames[j][46]))
                break
        sess.close()
    for i in range(ctx.budget(25, 250)):
        p = lg.gen_project(rng)
        if rng.random() < 0.15:
            p["micro800"] = True
        sess = lx.Session(model, p, conn_large=rng.random() < 0.6)
        if sess.open_error is not None:
            sess.close()
            continue
        if rng.random() < 0.4:
            # move the counter close to its wrap.  The jump is followed by one connected message so that the count the target
            # saw last is the driver's current one again: draws that are never sent (65535·k − m of them here) are not a
            # history the property speaks about, and without this message a later packet that draws several counts before
            # it is sent (embedded requests of a multi-service packet) could land on the count of the last upload request
            for _ in range(65535 * rng.choice([1, 2]) - rng.randint(2, 60)):
                next(sess.d._sequence)
            sess.d.generic_message(service=1, class_code=0x70, instance=1, connected=True, name="sync")
        if rng.random() < 0.5:
            # a controller may answer a read fragment "more to come" without any data (a stalled continuation): the
            # driver then asks again for the same offset — with a fresh count.  One such reply per session.
            stall = {"left": 1, "seen": 0, "at": rng.choice([0, 1, 2, 5])}

            def flt(reply, stall=stall):
                if len(reply) > 50 and reply[:2] == b"\x70\x00" and reply[46] == 0xD2 and reply[48] == 6 and stall["left"]:
                    stall["seen"] += 1
                    if stall["seen"] > stall["at"]:
                        stall["left"] -= 1
                        tl = 4 if reply[50:52] == b"\xa0\x02" else 2
                        out = bytearray(reply[:50 + tl])
                        import struct as _st
                        _st.pack_into("<H", out, 2, len(out) - 24)
                        _st.pack_into("<H", out, 42, len(out) - 44)
                        return bytes(out)
                return reply
            sess.sock.reply_filter = flt
        sess.log()
        n0 = max(0, len(sess.sock.frames) - 1)       # the last frame before the calls is part of the adjacency check
        calls = []
        abandoned = False
        for _ in range(rng.choice([2, 4, 8])):
            if rng.random() < 0.45:
                tags = [r[0] for r in (lx.gen_read(rng, p) for _ in range(rng.choice([1, 2, 5, 20]))) if r]
                if tags:
                    calls.append(("read", tags))
                    try:
                        core.with_budget(120, sess.d.read, *tags)
                    except BaseException as e:  # noqa
                        if isinstance(e, (KeyboardInterrupt, SystemExit)):
                            raise
                        if core.exn_class(e) == "hang":
                            abandoned = True      # the watchdog cut a very long transfer short: the session is not judged
                            break
            else:
                ws = [w for w in (c02.gen_write(rng, p) for _ in range(rng.choice([1, 2, 5, 12]))) if w]
                # several bits of the same integers, and exact duplicates, in one call
                for w in list(ws):
                    if w[2][0] == "bit" and rng.random() < 0.8:
                        base = w[0].rsplit(".", 1)[0]
                        for b in rng.sample(range(8), rng.choice([1, 2, 3])):
                            ws.append(("%s.%d" % (base, b), rng.random() < 0.5, w[2]))
                if ws and rng.random() < 0.3:
                    ws.append(rng.choice(ws))
                if ws:
                    calls.append(("write", [w[0] for w in ws]))
                    try:
                        core.with_budget(120, sess.d.write, *[(w[0], w[1]) for w in ws])
                    except BaseException as e:  # noqa
                        if isinstance(e, (KeyboardInterrupt, SystemExit)):
                            raise
                        if core.exn_class(e) == "hang":
                            abandoned = True
                            break
        if abandoned:
            ctx.count("logix-history-abandoned-on-timeout")
            sess.close()
            continue
        frames = [f for f in sess.sock.frames[n0:] if f[:2] == b"\x70\x00" and len(f) >= 46]
        seqs = [struct.unpack_from("<H", f, 44)[0] for f in frames]
        ctx.case("logix-histories", ("lh", i, len(frames)))
        ctx.count("logix-history-frames", len(frames))
        case = {"seed": ctx.seed, "index": i, "project": lx.project_summary(p), "micro800": p.get("micro800", False),
                "calls": [(k, t[:8]) for k, t in calls]}
        for j in range(1, len(seqs)):
            if seqs[j] == seqs[j - 1]:
                ctx.violation("sequence-count-repeated", dict(case, frame_index=j),
                              "count %d on two consecutive connected messages (services %#x, %#x)" % (seqs[j], frames[j - 1][46], frames[j][46]))
                break
        log = sess.log()
        texts = ["".join(chr(int(c)) for c in m.group(1).split()) for m in re.finditer(r"\(violation \(s([0-9 ]*)\)\)", log)]
        if any("repeated on consecutive" in t for t in texts):
            ctx.violation("target-saw-duplicate-sequence-count", case, "the reference target's duplicate detection fired")
        sess.close()


def replay(ctx, model, data):
    from pycomm3.util import cycle
    inp = data["input"]
    if "k" not in inp:
        c = core.Ctx("C17", data.get("tier", "quick"), data.get("seed", 0))
        run(c, model)
        return any(v["sig"] == data["sig"] for v in c.violations)
    g = cycle(65535, start=1)
    vals = [next(g) for _ in range(inp["k"] + 1)]
    print("draws", inp["k"] - 1, inp["k"], "=", vals[-2:], )
    return not (1 <= vals[-1] <= 65535) or (len(vals) > 1 and vals[-1] == vals[-2])
