"""C17 — connected messages carry fresh sequence counts.
Counter level: the real `cycle` generator vs the model (hash of long prefixes, values at sampled indices).
Driver level: the sequence counts in the connected frames of real-driver transcripts (transcripts.py)."""
import core


def impl_hash(n):
    from pycomm3.util import cycle
    g = cycle(65535, start=1)
    acc = 0
    for i in range(n):
        v = next(g)
        acc = (acc * 31 + (i + 1) * v) % 1000000007
    return acc


def run(ctx, model):
    from pycomm3.util import cycle
    lines, pend = [], []
    lens = [0, 1, 2, 65534, 65535, 65536, 65537, 131070, 131071] + ([140000] if ctx.tier == "quick" else [140000, 400000])
    for n in lens:
        h = impl_hash(n)
        ctx.case("counter-hash", ("hash", n))
        lines.append("seq.hash %d" % n)
        pend.append(("counter-hash", n, "ok %d" % h))
    # values + oracle on the generator itself: range, consecutive values differ, also across the wrap
    g = cycle(65535, start=1)
    prev = None
    total = ctx.budget(200000, 700000)
    for k in range(total):
        v = next(g)
        if not (1 <= v <= 65535):
            ctx.violation("counter-out-of-16-bit-range", {"k": k, "value": v}, "draw %d = %d" % (k, v))
            break
        if prev is not None and v == prev:
            ctx.violation("counter-repeats-consecutive-value", {"k": k, "value": v}, "draws %d and %d both %d" % (k - 1, k, v))
            break
        prev = v
        if k % 9973 == 0 or 65530 <= k % 65535 or k % 65535 <= 3:
            ctx.case("counter-nth", ("nth", k))
            lines.append("seq.nth %d" % k)
            pend.append(("counter-nth", k, "ok %d" % v))
    ctx.evaluations += total
    ctx.sample({"counter_draws_checked": total, "hash_prefix_lengths": lens})
    # driver level
    try:
        from props import transcripts
    except ImportError:
        transcripts = None
    if transcripts is not None:
        transcripts.run_c17(ctx, model)
    else:
        ctx.notes.append("driver-level sequence monitor not built yet: only the counter is checked against the implementation")
    outs = model.batch(lines)
    for (stream, k, want), out in zip(pend, outs):
        if out != want:
            ctx.mismatch(stream, {"k": k}, want, out)


def replay(ctx, model, data):
    from pycomm3.util import cycle
    inp = data["input"]
    g = cycle(65535, start=1)
    vals = [next(g) for _ in range(inp["k"] + 1)]
    print("draws", inp["k"] - 1, inp["k"], "=", vals[-2:], )
    return not (1 <= vals[-1] <= 65535) or (len(vals) > 1 and vals[-1] == vals[-2])
