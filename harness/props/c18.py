"""C18 — SLC addresses select the right file, element and bit; data round-trips."""
import re
import struct

import core
import sx
import fakesock

FILE_CODE = {"N": 0x89, "B": 0x85, "T": 0x86, "C": 0x87, "S": 0x84, "F": 0x8A, "L": 0x91, "O": 0x82, "I": 0x83}
ELEM = {"N": 2, "B": 2, "T": 6, "C": 6, "S": 2, "F": 4, "L": 4, "O": 2, "I": 2}
CT = {"PRE": 1, "ACC": 2, "EN": 15, "TT": 14, "DN": 13, "CU": 15, "CD": 14, "OV": 12, "UN": 11, "UA": 10}


def impl_parse(tag):
    from pycomm3.slc_driver import parse_tag
    try:
        t = core.with_budget(5, parse_tag, tag)
    except BaseException as e:  # noqa
        return "err " + core.exn_class(e)
    if t is None:
        return "none"
    if t["file_type"] in ("ST", "A"):
        return "unmodelled"
    return "ok (%s %d %d %d %d %d %d %s)" % (sx.name(t["file_type"]), int(t["file_number"]), int(t["element_number"]),
                                               int(t.get("pos_number", 0)), int(t.get("sub_element") or 0), t["address_field"],
                                               t["element_count"], sx.name(t["tag"]))


def gen_table(rng):
    """data table of the simulated controller: {(type letter, file number): bytearray}"""
    files = {}
    nums = {"O": 0, "I": 1, "S": 2, "B": 3, "T": 4, "C": 5, "N": 7, "F": 8}
    for t, n in nums.items():
        cnt = rng.choice([4, 16, 40, 256])
        files[(t, n)] = bytearray(rng.getrandbits(8) for _ in range(cnt * ELEM[t]))
    for t in ("N", "B", "L", "F", "N", "B"):
        n = rng.choice([9, 10, 12, 13, 100, 255])
        if not any(k[1] == n for k in files):
            cnt = rng.choice([1, 8, 40, 256])
            files[(t, n)] = bytearray(rng.getrandbits(8) for _ in range(cnt * ELEM[t]))
    for (t, n), d in files.items():
        if t == "F":      # no NaNs
            for i in range(0, len(d), 4):
                d[i:i + 4] = struct.pack("<f", rng.choice([0.0, 1.5, -3.25, 1e10, rng.uniform(-1e4, 1e4)]))
    return files


def table_sx(files):
    return "(slc " + " ".join("(file %d %d %s)" % (n, FILE_CODE[t], sx.hexb(d)) for (t, n), d in files.items()) + ")"


def casing(rng, s):
    r = rng.random()
    return s if r < 0.6 else (s.lower() if r < 0.8 else "".join(c.lower() if rng.random() < 0.5 else c for c in s))


def gen_address(rng, files):
    """an address that exists in the table -> (text, kind, file key, element, sub/bit, count)"""
    (t, n), d = rng.choice(list(files.items()))
    nel = len(d) // ELEM[t]
    e = rng.choice([0, nel - 1, rng.randrange(nel)])
    fnum = "" if t in ("S",) else str(n)
    if t in ("O", "I"):
        fnum = rng.choice(["", str(rng.randrange(0, 9))])          # I/O: the number in the text is ignored (O -> 0, I -> 1)
    r = rng.random()
    if t in ("T", "C"):
        sub = rng.choice(["PRE", "ACC", "EN", "DN", "TT"] if t == "T" else ["PRE", "ACC", "CU", "CD", "DN", "OV", "UN", "UA"])
        return casing(rng, "%s%d:%d.%s" % (t, n, e, sub)), "ct", (t, n), e, sub, 1
    if t == "B" and r < 0.4:
        bn = rng.choice([b for b in (0, 15, 16, 17, nel * 16 - 1, rng.randrange(nel * 16)) if b < nel * 16])   # only bits the file has
        return casing(rng, "B%d/%d" % (n, bn)), "bit", (t, n), bn // 16, bn % 16, 1
    base = "%s%s:%d" % (t, fnum, e)
    if r < 0.35:
        b = rng.choice([0, 1, 7, 8, 15, rng.randrange(16)])
        return casing(rng, "%s/%d" % (base, b)), "bit", (t, n), e, b, 1
    if r < 0.6 and nel - e >= 2 and t not in ("S",):
        cnt = rng.choice([2, 3, min(nel - e, 10), min(nel - e, 100 // ELEM[t])])
        cnt = max(2, min(cnt, nel - e))
        return casing(rng, "%s{%d}" % (base, cnt)), "words", (t, n), e, 0, cnt
    return casing(rng, base), "word", (t, n), e, 0, 1


def decode_elem(t, b):
    if t == "F":
        return struct.unpack("<f", bytes(b))[0]
    if t == "L":
        return struct.unpack("<i", bytes(b))[0]
    return struct.unpack("<h", bytes(b[:2]))[0]


def expected_read(files, kind, key, e, sub, cnt):
    t = key[0]
    d = files[key]
    sz = ELEM[t]
    if kind == "ct":
        if sub == "PRE":
            return struct.unpack("<h", bytes(d[e * 6 + 2:e * 6 + 4]))[0]
        if sub == "ACC":
            return struct.unpack("<h", bytes(d[e * 6 + 4:e * 6 + 6]))[0]
        w = struct.unpack("<H", bytes(d[e * 6:e * 6 + 2]))[0]
        return bool(w >> CT[sub] & 1)
    if kind == "bit":
        w = int.from_bytes(d[e * sz:e * sz + sz], "little")
        return bool(w >> sub & 1)
    if kind == "words":
        return [decode_elem(t, d[(e + i) * sz:(e + i + 1) * sz]) for i in range(cnt)]
    return decode_elem(t, d[e * sz:(e + 1) * sz])


def new_value(rng, t):
    if t == "F":
        return struct.unpack("<f", struct.pack("<f", rng.choice([0.0, 2.5, -1e6, rng.uniform(-1e3, 1e3)])))[0]
    if t == "L":
        return rng.choice([-2 ** 31, 2 ** 31 - 1, 0, rng.randint(-2 ** 31, 2 ** 31 - 1)])
    return rng.choice([-32768, 32767, 0, -1, rng.randint(-32768, 32767)])


def read_table(model):
    out = model.ask("target.slc")
    files = {}
    for it in sx.parse(out[3:]):
        n, code = int(it[1]), int(it[2])
        t = [k for k, v in FILE_CODE.items() if v == code][0]
        files[(t, n)] = bytearray(bytes.fromhex(it[3][1]) if len(it[3]) > 1 else b"")
    return files


def run(ctx, model):
    import pycomm3.cip_driver as cd
    from pycomm3 import SLCDriver
    rng = ctx.rng
    lines, pend = [], []

    def ask(stream, line, impl, case):
        lines.append(line)
        pend.append((stream, case, impl))

    # ---------------- address grammar: stratified in quick, the whole grammar in thorough
    types = ["N", "B", "F", "L", "S", "I", "O"]
    files_n = [1, 2, 9, 10, 99, 100, 255, 0, 256, 999] if ctx.tier == "quick" else list(range(0, 258)) + [999]
    elems = [0, 1, 9, 10, 99, 100, 255, 256, 999] if ctx.tier == "quick" else list(range(0, 258)) + [999]
    bits = [None, 0, 1, 9, 10, 15, 16, 99]
    counts = [None, 1, 2, 10]
    n_cases = 0
    for t in types:
        for fn in files_n:
            for el in elems:
                for b in (bits if (el < 12 or el > 250) and (fn < 12 or fn > 250) else [None, 5]):
                    for c in (counts if b is None and el < 3 else [None]):
                        tag = "%s%s:%d" % (t, "" if t == "S" else fn, el)
                        if b is not None:
                            tag += "/%d" % b
                        if c is not None:
                            tag += "{%d}" % c
                        tag = casing(rng, tag)
                        impl = impl_parse(tag)
                        ctx.case("grammar-parse", ("p", tag))
                        n_cases += 1
                        ask("grammar-parse", "slc.parse " + sx.name(tag), impl, tag)
                        in_range = (t in "SIO" or 1 <= fn <= 255) and el <= 255 and (b is None or b <= 15) and (t in "IO" or fn <= 999)
                        if t in "IO" and fn > 999:
                            in_range = False
                        if in_range and impl in ("none",):
                            ctx.violation("in-grammar-address-rejected", {"tag": tag}, impl)
                        if not in_range and impl.startswith("ok"):
                            ctx.violation("out-of-range-address-accepted", {"tag": tag}, impl)
    for fn in files_n:
        for bn in [0, 1, 15, 16, 17, 31, 32, 4095, 4096, 9999, 40950]:
            tag = casing(rng, "B%d/%d" % (fn, bn))
            impl = impl_parse(tag)
            ctx.case("grammar-parse", ("p", tag))
            ask("grammar-parse", "slc.parse " + sx.name(tag), impl, tag)
            ok = 1 <= fn <= 255 and bn <= 4095
            want = "ok (%s %d %d 0 %d 3 1 %s)" % (sx.name("B"), fn, bn // 16, bn % 16, sx.name(tag))
            if ok and impl != want:
                ctx.violation("binary-bit-address-wrong-word-or-bit", {"tag": tag}, "parsed %s, expected word %d bit %d" % (impl, bn // 16, bn % 16))
            if not ok and impl.startswith("ok"):
                ctx.violation("out-of-range-address-accepted", {"tag": tag}, impl)
    for t in "TC":
        for fn in [0, 1, 4, 255, 256]:
            for el in [0, 5, 255, 256]:
                for sub in CT:
                    for sep in ".:/x":
                        tag = casing(rng, "%s%d:%d%s%s" % (t, fn, el, sep, sub))
                        impl = impl_parse(tag)
                        ctx.case("grammar-parse", ("p", tag))
                        ask("grammar-parse", "slc.parse " + sx.name(tag), impl, tag)
    for tag in ["", "N7", "N7:", "N:0", "X7:0", "N7:0/", "N7:0{", "N7:0{}", "N7:0{a}", "N7:0 ", " N7:0", "N7:0/1/2", "N7:0{2}{3}", "ST9:0", "A9:1", "N7:00001",
                "N1000:1", "S2:1", "S:1/16", "I:0.300", "I1:2.3/4{2}", "O:1/2", "B3/", "B3:1/2", "T4:1", "T4:1.XYZ", "T4:123ACC", "T4:1..ACC"]:
        impl = impl_parse(tag)
        ctx.case("grammar-parse", ("p", tag))
        if impl != "unmodelled":
            ask("grammar-parse", "slc.parse " + sx.name(tag), impl, tag)
    ctx.extra["exhaustive_subdomains"] = "address grammar: %d type/file/element/bit/count combinations (%s)" % (
        n_cases, "stratified" if ctx.tier == "quick" else "every file 0..257 x element 0..257")

    # ---------------- the real SLCDriver against the reference SLC target
    for i in range(ctx.budget(40, 400)):
        files = gen_table(rng)
        scn = fakesock.base_scenario(policy=(True, rng.random() < 0.3, True), name=b"1747-L552") + " " + table_sx(files)
        assert model.ask("target.new " + scn) == "ok"
        d = SLCDriver("10.0.0.1")
        sock = fakesock.TargetSocket(model)
        d._sock = sock
        try:
            cd.CIPDriver.open(d)
        except Exception as e:  # noqa
            ctx.violation("open-failed", {"i": i}, repr(e)[:200])
            continue
        for j in range(rng.choice([3, 8, 20])):
            tag, kind, key, e, sub, cnt = gen_address(rng, files)
            t = key[0]
            case = {"tag": tag, "file": "%s%d" % key, "element": e, "sub": sub, "count": cnt, "scenario_index": i}
            want = expected_read(files, kind, key, e, sub, cnt)
            nframes = len(sock.frames)
            try:
                got = core.with_budget(20, d.read, tag)
            except BaseException as ex:  # noqa
                ctx.violation("read-raises:" + core.exn_class(ex), case, repr(ex)[:200])
                continue
            ctx.case("slc-read", ("r", i, j, tag))
            ctx.count("read/" + kind + "/" + t)
            # correspondence: the PCCC request the driver sent == the model's request for this address
            if len(sock.frames) > nframes:
                f = sock.frames[-1]
                pccc = f[46 + 6 + 7:]            # MR header (service, path) 6 bytes + requestor id 7 bytes
                tns = struct.unpack_from("<H", pccc, 2)[0]
                ask("slc-read-request", "slc.readreq %s %d" % (sx.name(tag), tns), "ok " + sx.hexb(pccc), tag)
            if not got:
                ctx.violation("existing-address-not-readable:" + kind, case, "Tag %r" % (got,))
            elif got.value != want and not (isinstance(want, float) and isinstance(got.value, (int, float)) and abs(got.value - want) < 1e-30):
                ctx.violation("read-wrong-value:" + kind + ":" + t, case, "expected %r got %r" % (want, got.value))
            # a bit address with an element count (`N7:0/3{2}`): if the driver accepts the write it must do what it reports
            if kind == "bit" and t in ("N", "B") and "/" in tag and ":" in tag and rng.random() < 0.25 and e + 2 <= len(files[key]) // ELEM[t]:
                ctag = "%s{2}" % tag
                vals = [rng.random() < 0.5, rng.random() < 0.5]
                before2 = read_table(model)
                try:
                    w2 = core.with_budget(20, d.write, (ctag, vals))
                except BaseException as ex:  # noqa
                    w2 = None
                    if core.exn_class(ex).startswith("foreign") or core.exn_class(ex) == "hang":
                        ctx.violation("write-raises:" + core.exn_class(ex), dict(case, tag=ctag), repr(ex)[:200])
                after2 = read_table(model)
                ctx.case("slc-write", ("wbc", i, j, ctag))
                ctx.count("write/bit-count/" + t)
                if w2:
                    sz2 = ELEM[t]
                    got_bits = [bool(int.from_bytes(after2[key][(e + q) * sz2:(e + q) * sz2 + 2], "little") >> sub & 1) for q in range(2)]
                    if got_bits != vals:
                        ctx.violation("bit-count-write-reported-written-but-not-stored", dict(case, tag=ctag, value=str(vals)),
                                      "write(%r, %r) reported success, bit %d of the two words now reads %s" % (ctag, vals, sub, got_bits))
                files = after2
            # write then read back (the status file is read-only here)
            if t == "S":
                continue
            before = read_table(model)
            if kind == "ct":
                v = new_value(rng, "N") if sub in ("PRE", "ACC") else rng.random() < 0.5
            elif kind == "bit":
                v = rng.random() < 0.5
            elif kind == "words":
                v = [new_value(rng, t) for _ in range(cnt)]
            else:
                v = new_value(rng, t)
            nframes = len(sock.frames)
            try:
                w = core.with_budget(20, d.write, (tag, v))
            except BaseException as ex:  # noqa
                ctx.violation("write-raises:" + core.exn_class(ex), dict(case, value=repr(v)[:80]), repr(ex)[:200])
                continue
            ctx.case("slc-write", ("w", i, j, tag, repr(v)))
            ctx.count("write/" + kind + "/" + t)
            if len(sock.frames) > nframes:
                f = sock.frames[-1]
                pccc = f[46 + 6 + 7:]
                tns = struct.unpack_from("<H", pccc, 2)[0]
                ask("slc-write-request", "slc.writereq %s %d %s" % (sx.name(tag), tns, sx.val(v)), "ok " + sx.hexb(pccc), tag)
            after = read_table(model)
            wcase = dict(case, value=repr(v)[:80])
            if not w:
                ctx.violation("write-refused:" + kind + ":" + t, wcase, "Tag %r" % (w,))
                files = after
                continue
            now = expected_read(after, kind, key, e, sub, cnt)
            if now != v and not (isinstance(v, float) and abs(now - v) < 1e-30):
                ctx.violation("write-then-read-differs:" + kind + ":" + t, wcase, "wrote %r, table holds %r" % (v, now))
            back = d.read(tag)
            if not back or (back.value != v and not isinstance(v, float)):
                ctx.violation("read-after-write-differs:" + kind, wcase, "read back %r" % (back,))
            # frame condition: only the addressed bytes (bit) changed
            sz = ELEM[t]
            for k2 in before:
                b0, a0 = before[k2], after[k2]
                if b0 == a0:
                    continue
                changed = [x for x in range(len(b0)) if b0[x] != a0[x]]
                lo, hi = e * sz, (e + cnt) * sz
                if kind == "ct":
                    w0 = {"PRE": 2, "ACC": 4}.get(sub, 0)
                    lo, hi = e * sz + w0, e * sz + w0 + 2
                if k2 != key or any(not (lo <= x < hi) for x in changed):
                    ctx.violation("write-changed-other-data", wcase, "file %s%d bytes %s" % (k2[0], k2[1], changed[:8]))
                elif kind == "ct" and sub not in ("PRE", "ACC"):
                    diff = int.from_bytes(b0[lo:lo + 2], "little") ^ int.from_bytes(a0[lo:lo + 2], "little")
                    if diff & ~(1 << CT[sub]):
                        ctx.violation("bit-write-changed-other-bits", wcase, "xor %#x" % diff)
                elif kind == "bit":
                    diff = int.from_bytes(b0[lo:lo + sz], "little") ^ int.from_bytes(a0[lo:lo + sz], "little")
                    if diff & ~(1 << sub):
                        ctx.violation("bit-write-changed-other-bits", wcase, "xor %#x" % diff)
            files = after
        try:
            d.close()
        except Exception:  # noqa
            pass
        if i < 2:
            ctx.sample({"files": ["%s%d" % k for k in files], "last_tag": tag})
    # rejected addresses must raise RequestError from read/write, never send anything
    d = SLCDriver("10.0.0.1")
    d._target_is_connected = True
    for tag in ["X7:0", "N0:0", "N256:0", "N7:256", "N7:0/16", "B3/4096", "N7:1000", "Q2:1", "", "7:0"]:
        for op in ("read", "write"):
            try:
                (d.read(tag) if op == "read" else d.write((tag, 1)))
                r = "returned"
            except BaseException as e:  # noqa
                r = core.exn_class(e)
            ctx.case("rejected-address", (op, tag))
            if r != "request":
                ctx.violation("bad-address-not-requesterror", {"tag": tag, "op": op}, r)
    # transcript correspondence of SLCDriver.read / write with the Lean SLC driver (SlcDriver.lean), stream `slc-driver`
    from props import slcdrv
    slcdrv.run(ctx, model)
    slcdrv.run_altered(ctx, model)
    outs = model.batch(lines) if lines else []
    for (stream, case, impl), out in zip(pend, outs):
        if core.norm_err(out) != core.norm_err(impl):
            ctx.mismatch(stream, {"tag": case}, impl[:300], out[:300])


def replay(ctx, model, data):
    # a recorded mismatch of the `slc-driver` transcript stream is replayed on its own session
    if data.get("kind") == "correspondence-broken":
        from props import slcdrv
        mine = [m for m in data.get("mismatches", []) if m.get("stream") == slcdrv.STREAM]
        if mine:
            return any(slcdrv.replay_case(model, m["case"]) > 0 for m in mine)
    c = core.Ctx("C18", data.get("tier", "quick"), data.get("seed", 0))
    run(c, model)
    return any(v["sig"] == data["sig"] for v in c.violations)
