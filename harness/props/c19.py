"""C19 — code tables are total, bidirectional, case-insensitive lookups.
Exhaustive over every member of every EnumMap subclass x letter casings x accessors."""
import core
import sx
import extract_tables as et


def atom_sx(v):
    if isinstance(v, bool):
        return "(i %d)" % int(v)
    if isinstance(v, int):
        return "(i %d)" % v
    if isinstance(v, (bytes, bytearray)):
        return sx.hexb(v)
    if isinstance(v, str):
        return sx.name(v)
    if v is None:
        return "(o 78)"
    return "(o" + "".join(" %d" % ord(c) for c in et.atom_repr(v)) + ")"


def casings(n):
    alt = "".join(c.upper() if i % 2 else c.lower() for i, c in enumerate(n))
    return [n, n.lower(), n.upper(), n.title(), alt, n.swapcase()]


def run(ctx, model):
    lines, pend = [], []

    def ask(op, T, key, impl):
        lines.append("enum.%s %s %s" % (op, sx.name(T.__name__), atom_sx(key)))
        pend.append((op, T.__name__, repr(key), impl))

    def impl_getitem(T, k):
        try:
            return "ok " + atom_sx(T[k])
        except Exception as e:  # noqa
            return "err " + core.exn_class(e)

    for T in et.enum_maps():
        members, bidir, caps, vkk, keys = et.table_spec(T)
        ctx.count("tables")
        for (n, v), kv in zip(members, keys):
            want = v.upper() if (caps and isinstance(v, str)) else v
            for c in casings(n):
                ctx.case("names", (T.__name__, c), trivial=False)
                got = impl_getitem(T, c)
                ask("getitem", T, c, got)
                g2 = "ok " + atom_sx(T.get(c))
                ask("get", T, c, g2)
                g3 = "ok T" if c in T else "ok F"
                ask("contains", T, c, g3)
                if got != "ok " + atom_sx(want) or g2 != "ok " + atom_sx(want) or g3 != "ok T":
                    ctx.violation("name-lookup:" + T.__name__, {"table": T.__name__, "key": c},
                                  "member %s=%r: [] -> %s, get -> %s, in -> %s" % (n, v, got, g2, g3))
            if bidir and kv is not None:
                ctx.case("codes", (T.__name__, repr(kv)))
                got = impl_getitem(T, kv)
                ask("getitem", T, kv, got)
                ask("get", T, kv, "ok " + atom_sx(T.get(kv)))
                ask("contains", T, kv, "ok T" if kv in T else "ok F")
                ok = False
                try:
                    back = T[kv]
                    if isinstance(back, str) and T.get(kv) == back and kv in T:
                        carried = T[back]
                        vk = T.__dict__.get("_value_key_")
                        ok = (vk(carried) if vk else carried) == kv
                except Exception:  # noqa
                    ok = False
                if not ok:
                    ctx.violation("code-lookup:" + T.__name__, {"table": T.__name__, "code": repr(kv)},
                                  "code %r of member %s does not resolve back to a member carrying it (%s)" % (kv, n, got))
        # absent keys
        # ... also every name the class or its metaclass answers `hasattr` for without its being a member (helpers,
        # bookkeeping attributes, dunders), in three casings: membership, [] and get must tell the same story
        member_names = {n.lower() for (n, _) in members}
        attrish = sorted(a for a in set(dir(T)) | set(dir(type(T))) if isinstance(a, str) and a.lower() not in member_names)
        attr_keys = [c for a in attrish for c in (a, a.upper(), a.title())]
        for k in ["no_such_member_", 0x7FFF_FFFF, b"\xde\xad\xbe\xef"] + attr_keys:
            ctx.case("absent", (T.__name__, repr(k)))
            got = impl_getitem(T, k)
            inn = k in T
            ask("getitem", T, k, got)
            ask("get", T, k, "ok " + atom_sx(T.get(k)))
            ask("contains", T, k, "ok T" if inn else "ok F")
            if inn != got.startswith("ok") or (T.get(k) is not None) != inn:
                ctx.violation("membership-inconsistent:" + T.__name__, {"table": T.__name__, "key": repr(k)},
                              "%r in %s is %s, but [] -> %s and get -> %r" % (k, T.__name__, inn, got, T.get(k)))
    # data-type codes resolve to the type carrying the code
    from pycomm3.cip import DataTypes
    for n in DataTypes.attributes:
        cls = getattr(DataTypes, n)
        t = DataTypes.get_type(cls.code)
        ctx.case("get_type", ("get_type", cls.code))
        if t is None or getattr(t, "code", None) != cls.code:
            ctx.violation("get_type-wrong-code", {"code": cls.code}, "get_type(%#x) -> %r" % (cls.code, t))
    # status texts
    from pycomm3.packets.util import get_service_status
    from pycomm3.cip import SERVICE_STATUS
    for s in range(256):
        txt = get_service_status(s)
        ctx.case("status-text", ("status", s))
        lines.append("status.text %d" % s)
        pend.append(("status", "", s, "ok " + sx.name(txt)))
        if not txt or (s not in SERVICE_STATUS and ("%02x" % s) not in txt):
            ctx.violation("status-text", {"status": s}, "text %r" % txt)
    # extended status texts: every (status, extended status) pair of the tables, carried as one and as two 16-bit words
    from pycomm3.packets.util import get_extended_status
    from pycomm3.cip import EXTEND_CODES
    for st, tbl in EXTEND_CODES.items():
        for ext, text in tbl.items():
            forms = []
            if ext < 0x10000:
                forms.append(bytes([st, 1]) + ext.to_bytes(2, "little"))
            forms.append(bytes([st, 2]) + ext.to_bytes(4, "little"))
            if ext == 0:
                forms.append(bytes([st, 0]))
            for body in forms:
                for start in (0, 42, 48):
                    msg = bytes(start) + body + b"\x99"
                    ctx.case("extended-status-text", ("ext", st, ext, body[1], start))
                    try:
                        got = get_extended_status(msg, start)
                        impl = "ok N" if got is None else "ok " + sx.name(got)
                    except Exception as e:  # noqa
                        got, impl = None, "raise:" + core.exn_class(e)
                    lines.append("status.ext %s %d" % (sx.hexb(msg), start))
                    pend.append(("status.ext", "", (st, ext, body[1], start), impl))
                    if not got or text not in got:
                        ctx.violation("extended-status-text", {"status": st, "extended": ext, "words": body[1], "start": start},
                                      "pair (%#x, %#x) is in the table (%r) but the lookup gave %r" % (st, ext, text, got))
    ctx.exhaustive = True
    ctx.extra["rule"] = "every member of every EnumMap subclass x 6 letter casings x {[], get, in}; every reverse key; 3 absent keys per table; every status byte 0..255; every tabulated (status, extended status) pair x word sizes x 3 offsets (complete for the domain)"
    ctx.sample({"tables": [T.__name__ for T in et.enum_maps()]})
    outs = model.batch(lines)
    for (op, tn, key, impl), out in zip(pend, outs):
        if core.norm_err(out) != core.norm_err(impl):
            ctx.mismatch(op, {"table": tn, "key": key}, impl[:200], out[:200])


def replay(ctx, model, data):
    inp = data["input"]
    print("re-run the check: table lookups are enumerated exhaustively;", inp)
    c = core.Ctx("C19", "quick", 0)
    run(c, model)
    return any(v["sig"] == data["sig"] for v in c.violations)
