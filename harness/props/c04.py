"""C04 — connected requests fit the connection; large data is tiled by fragments."""
import re
import struct

import core
import logixgen as lg
from props import logix as lx
from props.codec import oracle_eq


def sized_project(rng, sizes_names, rev=None, reads=None, struct_elem=None):
    """controller with SINT arrays (or arrays of a struct) of exact byte sizes and chosen name lengths; the firmware
    revision varies (what the driver negotiates must not depend on it: the granted size is the target's decision)"""
    if rev is None:
        rev = rng.choice([12, 16, 19, 20, 21, 32, 32, 32])
    templates = []
    if struct_elem:
        t = lg.Template(0x2B0, "BLK", 0x1234)
        t.members = [{"name": "d", "kind": "atomic", "type": "SINT", "array": struct_elem, "offset": 0}]
        t.size = struct_elem
        templates = [t]
    syms = []
    inst = 10
    for size, name in sizes_names:
        inst += 3
        if struct_elem:
            n = size // struct_elem
            syms.append(lg.Symbol(inst, name, "struct", templates[0], [n, 0, 0], bytes(rng.getrandbits(8) for _ in range(n * struct_elem))))
        else:
            syms.append(lg.Symbol(inst, name, "atomic", "SINT", [size, 0, 0], bytes(rng.getrandbits(8) for _ in range(size))))
    return {"templates": templates, "controller": syms, "programs": [], "rev": rev, "micro800": False, "pages": [], "tmpl": [],
            "reads": reads or []}


def fragments_in_log(log):
    """[(service, path text, elements, offset, data_len)] of fragmented services in order"""
    out = []
    for m in re.finditer(r"\(mr T F (82|83) \(((?:\([^()]*(?:\([^()]*\))?[^()]*\) ?)*)\) \(b ?([0-9a-f]*)\)", log):
        svc, path, data = int(m.group(1)), m.group(2), bytes.fromhex(m.group(3))
        if svc == 82:
            el, off = struct.unpack_from("<HI", data, 0)
            out.append((svc, path, el, off, None))
        else:
            tl = 4 if data[:2] == b"\xa0\x02" else 2
            el, off = struct.unpack_from("<HI", data, tl)
            out.append((svc, path, el, off, len(data) - tl - 6))
    return out


def check_log(ctx, sess, case, what):
    log = sess.log()
    for v in lx.violations_in_log(log):
        if "connected request of" in v:
            ctx.violation("request-larger-than-connection", case, v)
        elif "connected reply of" in v:
            ctx.violation("reply-larger-than-connection", case, v)
    # fragment tiling: per transfer (same path, consecutive), offsets start at 0 and are contiguous
    frags = fragments_in_log(log)
    cur = None
    for svc, path, el, off, dl in frags:
        key = (svc, path, el)
        if cur is None or cur[0] != key or off == 0:
            if off != 0:
                ctx.violation("fragment-transfer-does-not-start-at-0", case, "%s offset %d" % (path, off))
            cur = [key, 0]
        if svc == 83:
            if off != cur[1]:
                ctx.violation("write-fragments-not-contiguous", case, "offset %d, expected %d" % (off, cur[1]))
            cur[1] = off + dl
        else:
            cur[1] = off
    # correspondence with the fragment kernels: observed write offsets == model tiling for the observed segment size
    groups = {}
    for svc, path, el, off, dl in frags:
        if svc == 83:
            groups.setdefault((path, el), []).append((off, dl))
    for (path, el), lst in groups.items():
        transfers, cur = [], []
        for off, dl in lst:
            if off == 0 and cur:
                transfers.append(cur)
                cur = []
            cur.append((off, dl))
        if cur:
            transfers.append(cur)
        for tr in transfers:
            total = tr[-1][0] + tr[-1][1]
            seg = tr[0][1]
            want = sess.model.ask("k.writefrags %d %d" % (seg, total))
            got = "ok " + " ".join("(%d %d)" % (o, l) for o, l in tr)
            ctx.case("kernel-writefrags", ("wf", seg, total))
            if want != got:
                ctx.mismatch("kernel-writefrags", {"segment": seg, "total": total}, got[:300], want[:300])
    return log


def run(ctx, model):
    from props import kernels
    kernels.run_plan(ctx, model, "C04")
    run_spill(ctx, model)
    run_bool_deep(ctx, model)
    rng = ctx.rng
    windows = []
    for C in (500, 4000):
        span = ctx.budget(14, 40)
        windows += [(C, s) for s in range(C - span, C + span + 1, 1 if ctx.tier == "thorough" else 2)]
    windows += [(4000, s) for s in (1, 2, 3999, 4001, 7990, 8000, 8010, 12001)] + [(500, s) for s in (1, 499, 501, 990, 1000, 1010, 1503)]
    ctx.extra["exhaustive_subdomains"] = "tag sizes C-%d..C+%d for C in {500, 4000} x name lengths x {single, first, middle, last of a multi call} x read/write" % (
        ctx.budget(14, 40), ctx.budget(14, 40))
    idx = 0
    for (C, size) in windows:
        for namelen in ([4, 13] if ctx.tier == "quick" else [4, 5, 12, 13, 39, 40]):
            for pos in ("single", "first", "middle", "last"):
                if ctx.tier == "quick" and (idx % 3) and pos in ("middle",):
                    idx += 1
                    continue
                idx += 1
                name = "T" + "x" * (namelen - 1)
                others = [(rng.choice([16, 40, 100]), "o%d" % k) for k in range(3)]
                p = sized_project(rng, [(size, name)] + others, reads=rng.choice([[], [], [1], [37], [1000]]),
                                  struct_elem=rng.choice([None, None, 4]) if size % 4 == 0 else None)
                sess = lx.Session(model, p, conn_large=(C == 4000))
                if sess.open_error is not None:
                    ctx.violation("open-failed", {"size": size}, repr(sess.open_error)[:200])
                    continue
                sym = p["controller"][0]
                n_el = size if sym.kind == "atomic" else size // 4
                big = "%s{%d}" % (name, n_el) if n_el > 1 else name
                small = ["o0{4}", "o1{4}", "o2{4}"]
                tags = {"single": [big], "first": [big] + small, "middle": small[:1] + [big] + small[1:], "last": small + [big]}[pos]
                case = {"connection_size": C, "tag_bytes": size, "name_len": namelen, "position": pos, "tags": tags,
                        "element": "SINT" if sym.kind == "atomic" else "4-byte struct", "read_fragment_schedule": p["reads"]}
                # ---- read
                sess.log()
                try:
                    res = core.with_budget(120, sess.d.read, *tags)
                except BaseException as e:  # noqa
                    if isinstance(e, (KeyboardInterrupt, SystemExit)):
                        raise
                    ctx.violation("read-raises:" + core.exn_class(e), case, repr(e)[:300])
                    sess.close()
                    continue
                res = res if isinstance(res, list) else [res]
                ctx.case("size-window-read", ("r", C, size, namelen, pos))
                for t, got in zip(tags, res):
                    s = lx._find_symbol(p, t.split("{")[0])
                    cnt = int(t.split("{")[1][:-1]) if "{" in t else 1
                    want = lg.ref_elements(s.kind, s.typ, bytes(s.mem), 0, cnt)
                    want = want if "{" in t else want[0]
                    if not got:
                        ctx.violation("tag-not-readable-near-connection-size:" + pos, dict(case, failing=t), "falsy: %s" % lx.tag_summary(got))
                    elif not oracle_eq(want, got.value):
                        ctx.violation("read-wrong-value-near-connection-size", dict(case, failing=t), "value differs")
                check_log(ctx, sess, dict(case, op="read"), "read")
                # ---- write (same shape)
                vals = []
                for t in tags:
                    s = lx._find_symbol(p, t.split("{")[0])
                    cnt = int(t.split("{")[1][:-1]) if "{" in t else 1
                    if s.kind == "atomic":
                        v = [rng.randrange(-128, 128) for _ in range(cnt)]
                    else:
                        v = [{"d": [rng.randrange(-128, 128) for _ in range(4)]} for _ in range(cnt)]
                    vals.append((t, v if "{" in t else v[0]))
                try:
                    wres = core.with_budget(120, sess.d.write, *vals)
                except BaseException as e:  # noqa
                    if isinstance(e, (KeyboardInterrupt, SystemExit)):
                        raise
                    ctx.violation("write-raises:" + core.exn_class(e), case, repr(e)[:300])
                    sess.close()
                    continue
                wres = wres if isinstance(wres, list) else [wres]
                ctx.case("size-window-write", ("w", C, size, namelen, pos))
                mem, writes = sess.mem()
                for (t, v), got in zip(vals, wres):
                    s = lx._find_symbol(p, t.split("{")[0])
                    if not got:
                        ctx.violation("tag-not-writable-near-connection-size:" + pos, dict(case, failing=t), "falsy: %s" % lx.tag_summary(got))
                        continue
                    cnt = int(t.split("{")[1][:-1]) if "{" in t else 1
                    now = lg.ref_elements(s.kind, s.typ, mem[(None, s.inst)], 0, cnt)
                    now = now if "{" in t else now[0]
                    if not oracle_eq(v, now):
                        ctx.violation("write-not-stored-near-connection-size", dict(case, failing=t), "memory differs from the written value")
                check_log(ctx, sess, dict(case, op="write"), "write")
                if len(ctx.samples) < 3:
                    ctx.sample({"case": case, "read": [lx.tag_summary(t) for t in res[:2]]})
                sess.close()


def run_bool_deep(ctx, model):
    """BOOL-array slices that start deep inside a large array: the driver reads such a slice from DWORD 0 up to the DWORD
    of the last requested BOOL, so the reply is as large as that PREFIX of the array — what must fit the connection (or be
    read in fragments) is the prefix, not the few BOOLs asked for"""
    rng = ctx.rng
    for i in range(ctx.budget(12, 100)):
        C = rng.choice([500, 500, 4000])
        edge = (C - 20) // 4                       # DWORDs of a reply that about fills the connection
        words = edge + rng.choice([40, 200])
        mem = bytes(rng.getrandbits(8) for _ in range(4 * words))
        sym = lg.Symbol(40, "flags", "atomic", "DWORD", [words, 0, 0], mem)
        p = {"templates": [], "controller": [sym, lg.Symbol(43, "other", "atomic", "DINT", [0, 0, 0], bytes(4))], "programs": [],
             "rev": rng.choice([19, 21, 32]), "micro800": False, "pages": [], "tmpl": [], "reads": rng.choice([[], [], [100]])}
        sess = lx.Session(model, p, conn_large=(C == 4000))
        if sess.open_error is not None:
            sess.close()
            continue
        last_word = edge + rng.choice([-6, -3, -2, -1, 0, 1, 2, 5, 30])
        n = rng.choice([1, 2, 32, 33, 64])
        start = max(0, 32 * last_word + rng.randrange(32) - n + 1)
        tag = "flags[%d]{%d}" % (start, n) if n > 1 else "flags[%d]" % start
        multi = rng.random() < 0.4
        case = {"connection_size": C, "array_dwords": words, "request": tag, "dwords_from_0": (start + n + 31) // 32, "with_other_request": multi, "index": i}
        sess.log()
        try:
            res = core.with_budget(120, sess.d.read, *([tag, "other"] if multi else [tag]))
        except BaseException as e:  # noqa
            if isinstance(e, (KeyboardInterrupt, SystemExit)):
                raise
            ctx.violation("read-raises:" + core.exn_class(e), case, repr(e)[:300])
            sess.close()
            continue
        got = res[0] if isinstance(res, list) else res
        ctx.case("bool-deep", ("bd", C, start, n, multi))
        bits = [bool(mem[k // 8] >> (k % 8) & 1) for k in range(start, start + n)]
        want = bits if n > 1 else bits[0]
        if not got:
            ctx.violation("bool-slice-not-readable", case, "falsy: %s" % lx.tag_summary(got))
        elif got.value != want:
            ctx.violation("bool-slice-wrong-value", case, "expected %s got %s" % (str(want)[:80], str(got.value)[:80]))
        check_log(ctx, sess, dict(case, op="read"), "read")
        sess.close()


def run_spill(ctx, model):
    """one read()/write() call of several mid-size tags that spills over more than one multi-service packet:
    every packet and every solicited reply must respect the connection size, every value must arrive"""
    rng = ctx.rng
    n = ctx.budget(40, 400)
    for i in range(n):
        C = rng.choice([500, 500, 4000])
        k = rng.choice([2, 3, 4, 5, 6, 8, 12])
        # sizes chosen so that k-1 or k of them fill one packet almost exactly
        per = max(1, (C - rng.choice([10, 16, 24, 40])) // rng.choice([max(1, k - 1), k, 2, 3]) - rng.choice([0, 2, 8, 12, 14, 20]))
        sizes = [max(1, per + rng.choice([0, 0, 0, -1, 1, -2, 2])) for _ in range(k)]
        if rng.random() < 0.3:
            sizes.append(rng.choice([1, 4, 30]))
        names = ["%s%d" % (rng.choice(["a", "tag_", "quite_a_long_tag_name_"]), j) for j in range(len(sizes))]
        p = sized_project(rng, list(zip(sizes, names)), reads=rng.choice([[], [], [37]]))
        sess = lx.Session(model, p, conn_large=(C == 4000))
        if sess.open_error is not None:
            ctx.count("open-failed")
            sess.close()
            continue
        tags = ["%s{%d}" % (nm, sz) if sz > 1 else nm for sz, nm in zip(sizes, names)]
        case = {"connection_size": C, "tag_bytes": sizes, "tags": tags, "index": i}
        sess.log()
        try:
            res = core.with_budget(120, sess.d.read, *tags)
        except BaseException as e:  # noqa
            if isinstance(e, (KeyboardInterrupt, SystemExit)):
                raise
            ctx.violation("read-raises:" + core.exn_class(e), case, repr(e)[:300])
            sess.close()
            continue
        res = res if isinstance(res, list) else [res]
        ctx.case("spill-read", ("sr", C, tuple(sizes)))
        ctx.count("spill/%d-tags" % len(sizes))
        for t, got in zip(tags, res):
            sym = lx._find_symbol(p, t.split("{")[0])
            cnt = int(t.split("{")[1][:-1]) if "{" in t else 1
            want = lg.ref_elements(sym.kind, sym.typ, bytes(sym.mem), 0, cnt)
            want = want if "{" in t else want[0]
            if not got:
                ctx.violation("tag-not-readable-in-multi-packet-call", dict(case, failing=t), "falsy: %s" % lx.tag_summary(got))
            elif not oracle_eq(want, got.value):
                ctx.violation("read-wrong-value-in-multi-packet-call", dict(case, failing=t), "value differs")
        check_log(ctx, sess, dict(case, op="read"), "read")
        vals = [(t, [rng.randrange(-128, 128) for _ in range(sz)] if sz > 1 else rng.randrange(-128, 128)) for t, sz in zip(tags, sizes)]
        try:
            wres = core.with_budget(120, sess.d.write, *vals)
        except BaseException as e:  # noqa
            if isinstance(e, (KeyboardInterrupt, SystemExit)):
                raise
            ctx.violation("write-raises:" + core.exn_class(e), case, repr(e)[:300])
            sess.close()
            continue
        wres = wres if isinstance(wres, list) else [wres]
        ctx.case("spill-write", ("sw", C, tuple(sizes)))
        mem, writes = sess.mem()
        for (t, v), got in zip(vals, wres):
            sym = lx._find_symbol(p, t.split("{")[0])
            if not got:
                ctx.violation("tag-not-writable-in-multi-packet-call", dict(case, failing=t), "falsy: %s" % lx.tag_summary(got))
                continue
            cnt = int(t.split("{")[1][:-1]) if "{" in t else 1
            now = lg.ref_elements(sym.kind, sym.typ, mem[(None, sym.inst)], 0, cnt)
            now = now if "{" in t else now[0]
            if not oracle_eq(v, now):
                ctx.violation("write-not-stored-in-multi-packet-call", dict(case, failing=t), "memory differs from the written value")
        check_log(ctx, sess, dict(case, op="write"), "write")
        sess.close()


def replay(ctx, model, data):
    c = core.Ctx("C04", data.get("tier", "quick"), data.get("seed", 0))
    run(c, model)
    return any(v["sig"] == data["sig"] for v in c.violations)
