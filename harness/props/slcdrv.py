"""Transcript correspondence for SLCDriver.read / SLCDriver.write (lean/PycommModel/SlcDriver.lean), stream `slc-driver`.

The REAL SLCDriver runs against the interactive Lean reference target (PCCC object on a generated data table); a
Lean-side session runs the Lean SLC driver (`Slc.Drv.slcRead` / `slcWrite` through `Cli.ensureForwardOpen` and
`Cli.sendReq`) against an identical Lean target of its own.  Two ways to make the Lean session:
  * `sd.open`  - self-contained: fresh target, fresh driver, `Cli.openDrv` with the 8 bytes the (patched) `urandom`
                 delivered to the real `open()`; nothing is taken from the real driver;
  * `sd.new`   - the target is brought to the real target's state by replaying the frames the real driver emitted so
                 far, the driver state (session, connection ids, counter, negotiated size) is taken from the real one
                 (used for sessions whose counter was advanced to the wrap-around, and for sessions joined after the
                 Forward Open).
Then the same generated calls run on both sides and are compared on
  (i)   the frames the client emitted, byte for byte (both counter draws, requestor id, Forward Open on first use),
  (ii)  the returned Tags (tag, value, type, error) canonically - or the class of the escaping exception -, and
        whether a single Tag or a list came back,
  (iii) the final data table, event log and session / connection tables of the two targets.

Development entry point:   VERIF_REPO=… python harness/props/slcdrv.py --n 300 --seed 1     (or --replay FILE)
"""
import json
import os
import struct
import sys

if __name__ == "__main__":
    sys.path.insert(0, os.path.dirname(os.path.dirname(os.path.abspath(__file__))))

import core
import sx
import fakesock
from props import c18

if core.REPO not in sys.path:
    sys.path.insert(0, core.REPO)

STREAM = "slc-driver"
PATHS = ["10.0.0.1", "10.0.0.1/2", "192.168.1.10/bp/1", "10.0.0.1/1/0"]


def counting(gen, box):
    """a generator (the packet classes test `isinstance(sequence, Generator)`) that remembers the last draw"""
    while True:
        v = next(gen)
        box["last"] = v
        yield v


def _b(x):
    return "T" if x else "F"


def canon_tag(t):
    try:
        v = sx.canon(t.value)
    except Exception:  # noqa
        v = ("unrenderable",)
    err = t.error
    if isinstance(err, str) and err.startswith("Failed to parse reply"):
        err = "Failed to parse reply"          # the exception text behind it is not modelled
    return (t.tag, v, t.type, err)


def parse_sd_result(out):
    """'ok (tags (tag NAME VAL TYPE ERR)…)|(raise exn) (frames …)' -> dict"""
    if not out.startswith("ok "):
        return {"result": ("model-error", out[:200]), "frames": []}
    items = sx.parse(out[3:])
    res, frames = items[0], items[1]
    if res[0] == "raise":
        r = ("raise", res[1])
    else:
        tags = []
        for t in res[1:]:
            err = None if t[4] == "N" else sx.to_py(t[4])
            tags.append((sx.to_py(t[1]), sx.canon(sx.to_py(t[2])), sx.to_py(t[3]), err))
        r = ("tags", tags)
    return {"result": r, "frames": [f[1] if len(f) > 1 else "" for f in frames[1:]]}


class Pair:
    """the real SLCDriver on the interactive Lean target + the Lean SLC driver on its own identical Lean target"""

    def __init__(self, model, cfg):
        import pycomm3.cip_driver as cd
        from pycomm3 import SLCDriver
        self.model, self.cfg = model, cfg
        self.scn = cfg["base"] + " " + cfg["table"]
        r = model.ask("target.new " + (cfg["base"] if cfg["table"] == "noslc" else self.scn))
        assert r == "ok", r
        self.d = SLCDriver(cfg["path"])
        self.seqbox = {"last": 0}
        for _ in range(cfg.get("advance", 0)):
            next(self.d._sequence)
            self.seqbox["last"] = (self.seqbox["last"] % 65535) + 1
        self.d._sequence = counting(self.d._sequence, self.seqbox)
        self.sock = fakesock.TargetSocket(model, {})
        self.d._sock = self.sock
        self.open_error = None
        self.sd_status = None
        self.open_mismatch = None
        rnd = bytes.fromhex(cfg["rnd"])
        box = [rnd[:4], rnd[4:]]
        old = cd.urandom
        cd.urandom = lambda n: box.pop(0) if box else old(n)
        try:
            ok = core.with_budget(30, cd.CIPDriver.open, self.d)
        except BaseException as e:  # noqa
            if isinstance(e, (KeyboardInterrupt, SystemExit)):
                raise
            self.open_error = e
            return
        finally:
            cd.urandom = old
        if not ok:
            self.open_error = RuntimeError("open() returned False")
            return
        d = self.d
        if cfg["mode"] == "open":
            out = model.ask("sd.open %s (cfg (path %s) (rnd %s))" % (self.scn, sx.name(cfg["path"]), sx.hexb(rnd)))
            self.sd_status = "ok" if out.startswith("ok ") else out
            if out.startswith("ok "):
                items = sx.parse(out[3:])
                frames = [f[1] if len(f) > 1 else "" for f in items[1][1:]]
                if items[0] != ["result", ["ok", "T"]] or frames != [f.hex() for f in self.sock.frames]:
                    self.open_mismatch = ("open() -> True, frames %s" % [f.hex() for f in self.sock.frames], out[:600])
            model.ask("target.log")
            model.ask("sd.log")
        else:
            for a in cfg.get("warmup", []):
                try:
                    core.with_budget(30, d.read, a)
                except BaseException as e:  # noqa
                    if isinstance(e, (KeyboardInterrupt, SystemExit)):
                        raise
            model.ask("target.log")            # the comparison of event logs starts here
            self.sd_status = model.ask(
                "sd.new %s (cfg (path %s) (session %d) (connected %s) (tcid %s) (cid %s) (csn %s) (vid %s) (vsn %s) (seq %d) "
                "(connsize %d) (extfo %s)) (pre %s)" % (
                    self.scn, sx.name(cfg["path"]), d._session, _b(d._target_is_connected),
                    sx.hexb(d._target_cid) if d._target_cid is not None else "N", sx.hexb(d._cfg["cid"]), sx.hexb(d._cfg["csn"]),
                    sx.hexb(d._cfg["vid"]), sx.hexb(d._cfg["vsn"]), self.seqbox["last"] + 1, d._cfg["connection_size"],
                    _b(d._cfg["extended forward open"]), " ".join(sx.hexb(f) for f in self.sock.frames)))

    def call(self, kind, args):
        """run one read / write on both sides -> (impl, model) dicts with result, frames"""
        before = len(self.sock.frames)
        shape_ok = True
        try:
            if kind == "read":
                res = core.with_budget(30, self.d.read, *args)
            else:
                res = core.with_budget(30, self.d.write, *args)
            # the API contract: one Tag for exactly one address, a list otherwise
            shape_ok = isinstance(res, list) == (len(args) != 1)
            res = res if isinstance(res, list) else [res]
            impl_res = ("tags", [canon_tag(t) for t in res])
        except BaseException as e:  # noqa
            if isinstance(e, (KeyboardInterrupt, SystemExit)):
                raise
            impl_res = ("raise", core.exn_class(e))
        impl = {"result": impl_res, "frames": [f.hex() for f in self.sock.frames[before:]], "shape_ok": shape_ok}
        if impl_res == ("raise", "hang"):
            return impl, None, ""
        if kind == "read":
            line = "sd.read " + " ".join(sx.name(t) for t in args)
        else:
            line = "sd.write " + " ".join("(%s %s)" % (sx.name(t), sx.val(v)) for t, v in args)
        out = self.model.ask(line)
        return impl, parse_sd_result(out), line

    def final_state(self):
        m = self.model
        return ((m.ask("target.slc"), m.ask("target.log"), m.ask("target.state")),
                (m.ask("sd.slc"), m.ask("sd.log"), m.ask("sd.state")))

    def close(self):
        try:
            self.d.close()
        except Exception:  # noqa
            pass


# ------------------------------------------------------------------ generators

TYPES = ["N", "B", "F", "L", "S", "I", "O", "T", "C"]
CT_T = ["PRE", "ACC", "EN", "TT", "DN"]
CT_C = ["PRE", "ACC", "CU", "CD", "DN", "OV", "UN", "UA"]
BAD = ["", "N7", "N7:", "N:0", "X7:0", "N7:0/", "N7:0{", "N7:0{}", "N7:0{a}", "N7:0 ", " N7:0", "N7:0/1/2", "N7:0{2}{3}",
       "N7:00001", "N1000:1", "S2:1", "S:1/16", "I:0.3000", "B3/", "B3:1/2/3", "T4:1", "T4:1.XYZ", "T4:1..ACC", "N0:0", "N256:0",
       "N7:256", "N7:0/16", "B3/4096", "N7:1000", "Q2:1", "7:0", "B0/1", "B256/1", "T0:0.ACC", "C256:1.PRE", "T4:256.DN",
       "N7:0\n", "F8:1/", "L9:0{", "O:256", "I:1/16"]


def file_numbers(files):
    return sorted({n for (_, n) in files})


def gen_any_valid(rng, files):
    """an address of a valid form whose fields are drawn without looking at what the table holds: existing or not,
    inside or outside the file, right or wrong file type; 254 / 255 / 256-ish boundary fields included"""
    t = rng.choice(TYPES)
    nums = file_numbers(files)
    fn = rng.choice(nums + nums + [1, 2, 6, 11, 254, 255])
    if fn == 0:
        fn = 1
    e = rng.choice([0, 1, 2, 3, 15, 39, 254, 255, rng.randrange(256)])
    if t in ("T", "C"):
        sub = rng.choice(CT_T if t == "T" else CT_C)
        sep = rng.choice([".", ".", ".", "/", ":", "x"])
        return "%s%d:%d%s%s" % (t, fn, e, sep, sub)
    if t == "S":
        base = "S:%d" % e
    elif t in ("I", "O"):
        base = "%s%s:%d" % (t, rng.choice(["", "", str(rng.randrange(0, 9)), "255"]), e)
        if rng.random() < 0.5:
            base += ".%d" % rng.choice([0, 1, 2, 254, 255, 256, 999, rng.randrange(300)])
    else:
        base = "%s%d:%d" % (t, fn, e)
    r = rng.random()
    if t == "B" and r < 0.25:
        return "B%d/%d" % (fn, rng.choice([0, 15, 16, 255, 4079, 4080, 4095, rng.randrange(4096)])) + (
            "{%d}" % rng.choice([1, 2]) if rng.random() < 0.1 else "")
    if r < 0.35:
        base += "/%d" % rng.choice([0, 1, 7, 8, 15, rng.randrange(16)])
        if rng.random() < 0.15:
            base += "{%d}" % rng.choice([0, 1, 2, 3])
        return base
    if r < 0.65:
        return base + "{%d}" % rng.choice([0, 1, 2, 3, 10, 63, 64, 127, 128, 200, 255, 256, 1000, 70000])
    return base


def gen_read_address(rng, files):
    """-> (text, shape)"""
    r = rng.random()
    if r < 0.45 and files:
        tag = c18.gen_address(rng, files)[0]
        return tag, "existing"
    if r < 0.90:
        return c18.casing(rng, gen_any_valid(rng, files)), "any-valid-form"
    if r < 0.95:
        return rng.choice(BAD), "malformed"
    # a valid address damaged by one edit
    tag = gen_any_valid(rng, files)
    k = rng.randrange(len(tag) + 1)
    how = rng.random()
    if how < 0.4 and tag:
        k = min(k, len(tag) - 1)
        tag = tag[:k] + tag[k + 1:]
    elif how < 0.8:
        tag = tag[:k] + rng.choice(":/.{}0 9xT-") + tag[k:]
    else:
        tag = tag + rng.choice(["0", "/1", "{2}", ".1", " "])
    return tag, "edited"


def modelled(tag):
    """ST and A files are outside C18 and outside the model's `parseTag`"""
    from pycomm3.slc_driver import parse_tag
    try:
        t = parse_tag(tag)
    except Exception:  # noqa
        return False
    return t is None or t["file_type"] not in ("ST", "A")


def parsed(tag):
    from pycomm3.slc_driver import parse_tag
    try:
        return parse_tag(tag)
    except Exception:  # noqa
        return None


def good_value(rng, t, cnt, bit):
    ft = t["file_type"]
    if bit and cnt <= 1:
        if ft in ("T", "C") and int(t.get("sub_element") or 0) in (1, 2):
            return c18.new_value(rng, "N")
        return rng.choice([True, False, 0, 1, 5])
    k = "F" if ft == "F" else ("L" if ft == "L" else "N")
    if cnt > 1:
        return [c18.new_value(rng, k) for _ in range(cnt)]
    return c18.new_value(rng, k)


def bad_value(rng, t, cnt, bit, good):
    r = rng.random()
    if cnt > 1:
        return rng.choice([
            good[:-1],                                         # too short
            good + good[:2],                                   # too long: truncated
            good[0],                                           # a scalar for {n}
            None, "ab" * cnt, tuple(good), [None] * cnt, ["x"] * cnt, [1.5] * cnt, [70000] * cnt, [-2 ** 40] * cnt, [],
            bytes(2 * cnt), {"a": 1}, {"k%d" % i: i for i in range(cnt)}, {"k%d" % i: i for i in range(cnt + 2)}, "x" * cnt, "y" * (cnt + 1),
            [True] * cnt, [[1]] * cnt, good[:1] + [None] * (cnt - 1), tuple(good) + (1,),
        ])
    if r < 0.15:
        return rng.choice([b"", b"\xff\xff\x34\x12", b"\x01\x00\x01\x00", bytes(rng.getrandbits(8) for _ in range(rng.choice([1, 3, 4, 6, 8])))])
    return rng.choice([None, "x", "", 1.5, -0.0, 1e40, float("inf"), [1], [1, 2], (3,), 32768, -32769, 65535, 2 ** 31, -2 ** 31 - 1, 2 ** 40,
                       True, {"a": 1}, [], "12"])


def gen_write_item(rng, files):
    """-> ((text, value), shape)"""
    tag, shape = gen_read_address(rng, files)
    t = parsed(tag)
    if t is None or t["file_type"] in ("ST", "A"):
        return (tag, rng.choice([0, 1, True, [1, 2], 2.5])), shape + "/rejected"
    cnt = t["element_count"]
    cnt_eff = cnt if 1 < cnt <= 130 else 1
    bit = t.get("address_field") == 3
    good = good_value(rng, t, cnt_eff, bit)
    if rng.random() < 0.7:
        return (tag, good), shape + "/good-value"
    return (tag, bad_value(rng, t, cnt_eff, bit, good)), shape + "/bad-value"


def _renderable(v):
    try:
        sx.val(v)
        return True
    except sx.Unrenderable:
        return False


def gen_setup(rng):
    files = c18.gen_table(rng)
    # files 255 / 254 with all 256 elements, so that the extended address fields reach existing data
    if rng.random() < 0.5:
        for t, n in (("N", 255), ("B", 254)):
            if not any(k[1] == n for k in files):
                files[(t, n)] = bytearray(rng.getrandbits(8) for _ in range(256 * 2))
    if rng.random() < 0.4:
        files[("I", 1)] = bytearray(rng.getrandbits(8) for _ in range(2 * rng.choice([260, 300, 520])))
    table = c18.table_sx(files)
    noslc = rng.random() < 0.03
    mode = "open" if rng.random() < 0.5 else "new"
    cfg = {
        "base": fakesock.base_scenario(policy=(True, rng.random() < 0.6, True), name=b"1747-L552"),
        "table": "noslc" if noslc else table,
        "path": rng.choice(PATHS),
        "mode": mode,
        "rnd": bytes(rng.getrandbits(8) for _ in range(8)).hex(),
    }
    if mode == "new":
        cfg["advance"] = rng.choice([0, 0, 3, 65520, 65529, 65531, 65532, 65533, 65534])
        cfg["warmup"] = rng.choice([[], [], ["N7:0"], ["N7:0", "Q1"]])
    return files, cfg


def gen_calls(rng, files):
    calls = []
    for _ in range(rng.choice([1, 2, 3, 5, 8])):
        kind = "read" if rng.random() < 0.5 else "write"
        n = rng.choice([1, 1, 1, 2, 3, 4, 0] if rng.random() < 0.9 else [6, 10])
        args, shapes = [], []
        for _ in range(n):
            for _try in range(20):
                if kind == "read":
                    a, s = gen_read_address(rng, files)
                    ok = modelled(a)
                else:
                    a, s = gen_write_item(rng, files)
                    ok = modelled(a[0]) and _renderable(a[1])
                if ok:
                    args.append(a)
                    shapes.append(s)
                    break
        calls.append((kind, args, shapes))
        # read back what a write call wrote, with the same address texts
        if kind == "write" and args and rng.random() < 0.6:
            calls.append(("read", [a for a, _ in args], ["readback"] * len(args)))
    return calls


# ------------------------------------------------------------------ the stream

def _norm(s):
    return s.replace(" )", ")").replace("( ", "(")


def compare_call(ctx, case, impl, mod):
    ok = True
    if impl["frames"] != mod["frames"]:
        k = next((j for j, (a, b) in enumerate(zip(impl["frames"], mod["frames"])) if a != b), min(len(impl["frames"]), len(mod["frames"])))
        ctx.mismatch(STREAM, dict(case, field="frames", first_difference=k),
                     "%d frames; #%d: %s" % (len(impl["frames"]), k, (impl["frames"][k] if k < len(impl["frames"]) else "-")[:400]),
                     "%d frames; #%d: %s" % (len(mod["frames"]), k, (mod["frames"][k] if k < len(mod["frames"]) else "-")[:400]))
        ok = False
    ri, rm = impl["result"], mod["result"]
    if ri != rm:
        if ri[0] == "tags" and rm[0] == "tags":
            k = next((j for j, (a, b) in enumerate(zip(ri[1], rm[1])) if a != b), min(len(ri[1]), len(rm[1])))
            a = ri[1][k] if k < len(ri[1]) else "-"
            b = rm[1][k] if k < len(rm[1]) else "-"
            ctx.mismatch(STREAM, dict(case, field="result", first_difference=k), repr(a)[:600], repr(b)[:600])
        else:
            ctx.mismatch(STREAM, dict(case, field="result"), repr(ri)[:600], repr(rm)[:600])
        ok = False
    if not impl["shape_ok"]:
        ctx.mismatch(STREAM, dict(case, field="shape"), "single Tag / list does not follow the number of addresses", "-")
        ok = False
    return ok


def shown_of(kind, args):
    return list(args) if kind == "read" else [(t, sx.val(v)) for t, v in args]


def run_session(ctx, model, cfg, calls, index, verbose=False):
    """one session on both sides; `calls` = [(kind, args, shapes)]; returns False when a comparison failed"""
    pair = Pair(model, cfg)
    case0 = {"seed": ctx.seed, "index": index, "config": cfg, "calls": []}
    if pair.open_error is not None:
        ctx.count(STREAM + "/open-failed")
        ctx.mismatch(STREAM, case0, "open() failed: %r" % (pair.open_error,), "-")
        pair.close()
        return False
    if pair.sd_status != "ok":
        ctx.case(STREAM, (STREAM, "new", index))
        ctx.mismatch(STREAM, case0, "open() succeeded", str(pair.sd_status)[:300])
        pair.close()
        return False
    if pair.open_mismatch:
        ctx.case(STREAM, (STREAM, "open", index))
        ctx.mismatch(STREAM, dict(case0, field="open"), pair.open_mismatch[0][:600], pair.open_mismatch[1])
        pair.close()
        return False
    ctx.count("%s/mode/%s" % (STREAM, cfg["mode"]))
    ok = True
    done = []
    for kind, args, shapes in calls:
        done.append([kind, shown_of(kind, args)])
        case = dict(case0, calls=done)
        impl, mod, line = pair.call(kind, args)
        if verbose:
            print("%s %s\n   real driver: %s\n   Lean driver: %s\n   table: %s" % (
                kind, done[-1][1], impl["result"], mod["result"] if mod else None, model.ask("target.slc")[:400]))
        if mod is None:
            ctx.count("%s/budget-exceeded" % STREAM)
            ok = False
            break
        ctx.case(STREAM, (STREAM, cfg["table"][:200], repr(done[-1])), trivial=not args)
        for s in shapes:
            ctx.count("%s/shape/%s" % (STREAM, s))
        ctx.count("%s/%s-calls" % (STREAM, kind))
        ctx.count("%s/addresses" % STREAM, len(args))
        ctx.count("%s/frames" % STREAM, len(impl["frames"]))
        ctx.count("%s/outcome/%s" % (STREAM, impl["result"][0] if impl["result"][0] != "raise" else "raise:" + impl["result"][1]))
        if impl["result"][0] == "tags":
            for t in impl["result"][1]:
                ctx.count("%s/tag/%s" % (STREAM, "ok" if t[3] is None else "error:" + str(t[3])[:24]))
        ok = compare_call(ctx, dict(case, model_line=line[:3000]), impl, mod)
        if not ok:
            break
    if ok:
        si, sm = pair.final_state()
        for name, a, b in zip(("table", "log", "state"), si, sm):
            if _norm(a) != _norm(b):
                k = next((j for j, (x, y) in enumerate(zip(a, b)) if x != y), 0)
                ctx.mismatch(STREAM, dict(case0, calls=done, field="target-" + name),
                             a[max(0, k - 200):k + 300], b[max(0, k - 200):k + 300])
                ok = False
    ctx.count("%s/connection-size/%s" % (STREAM, pair.d._cfg["connection_size"]))
    pair.close()
    return ok


def run(ctx, model, n=None):
    rng = ctx.rng
    n = ctx.budget(80, 800) if n is None else n
    for i in range(n):
        files, cfg = gen_setup(rng)
        calls = gen_calls(rng, files)
        run_session(ctx, model, cfg, calls, i)
        if i < 2 and calls:
            ctx.sample({"stream": STREAM, "calls": [[k, shown_of(k, a)[:4]] for k, a, _ in calls][:2]})
    ctx.count("%s/sessions" % STREAM, n)


def run_altered(ctx, model, n=None):
    """calls whose replies are scripted: the healthy call first (both sides), then the same call with the transports'
    queues pre-loaded with its healthy replies of which one is altered (CIP status, PCCC STS byte, encapsulation status,
    cut short, a flipped bit).  The real SLCDriver and the Lean one read the same replies: Tags, exception classes and
    frames must agree; nothing but library exceptions may escape."""
    import struct
    from props.logixdrv import alter_reply
    rng = ctx.rng
    stream = "slc-altered"
    n = ctx.budget(30, 300) if n is None else n
    for i in range(n):
        files, cfg = gen_setup(rng)
        calls = [c for c in gen_calls(rng, files) if c[1]]
        if not calls:
            continue
        pair = Pair(model, cfg)
        if pair.open_error is not None or pair.sd_status != "ok" or pair.open_mismatch:
            pair.close()
            continue
        kind, args, shapes = calls[0]
        case0 = {"seed": ctx.seed, "index": i, "config": cfg, "calls": [[kind, shown_of(kind, args)]]}
        r0 = len(pair.sock.replies)
        impl, mod, line = pair.call(kind, args)
        if mod is None or impl["result"] != mod["result"] or impl["result"][0] == "raise":
            pair.close()
            continue                      # the healthy comparison belongs to the slc-driver stream; a call that raises by itself is not judged here
        healthy = [r for r in pair.sock.replies[r0:] if r is not None]
        if not healthy:
            pair.close()
            continue
        for rep in range(rng.choice([1, 2, 3])):
            k = rng.randrange(len(healthy))
            if rng.random() < 0.25 and len(healthy[k]) > 58:
                bad = bytearray(healthy[k])
                bad[58] = rng.choice([0x10, 0x50, 0xF0, 0x01])
                what, bad = "pccc sts %#x" % bad[58], bytes(bad)
            elif rng.random() < 0.25 and len(healthy[k]) > 58:
                bad = bytearray(healthy[k])
                bad[48] = rng.choice([1, 4, 5, 8, 0x1E, 0xFF])
                what, bad = "status %#x with the body intact" % bad[48], bytes(bad)
            else:
                what, bad = alter_reply(rng, healthy[k])
            scripted = list(healthy)
            scripted[k] = bad
            pair.sock.pending[:] = list(scripted)
            r = model.ask("sd.pending " + " ".join(sx.hexb(x) for x in scripted))
            assert r == "ok", r
            case = dict(case0, altered_reply=k, of=len(healthy), alteration=what, scripted=[x.hex()[:300] for x in scripted][:6])
            impl, mod, line = pair.call(kind, args)
            pair.sock.pending[:] = []
            model.ask("sd.pending")
            ctx.case(stream, (stream, cfg["table"][:200], repr(case0["calls"]), k, what, rep))
            ctx.count("%s/alteration/%s" % (stream, what.split(" ")[0]))
            if mod is None:
                break
            ctx.count("%s/outcome/%s" % (stream, impl["result"][0] if impl["result"][0] != "raise" else "raise:" + str(impl["result"][1])))
            if impl["result"][0] == "raise" and (str(impl["result"][1]).startswith("foreign") or impl["result"][1] == "hang"):
                ctx.violation("slc-public-call-raises-foreign:%s" % str(impl["result"][1]).split(":")[-1],
                              {k_: v_ for k_, v_ in case.items() if k_ != "config"}, "%s raised %s" % (kind, impl["result"][1]))
            # C13: a reply whose own status words report a failure never yields a successful Tag, whatever the PCCC part says
            if impl["result"][0] == "tags" and (what.startswith("encapsulation") or what.startswith("status ")) and k < len(impl["result"][1]):
                t = impl["result"][1][k]
                if t[1] is not None and t[1] != ("NoneType", None) and t[3] is None:
                    ctx.violation("slc-bad-status-reply-reported-as-success", {k_: v_ for k_, v_ in case.items() if k_ != "config"},
                                  "reply %d carried %s, the Tag is %r" % (k, what, t))
            if impl["result"] != mod["result"] or impl["frames"] != mod["frames"]:
                ctx.mismatch(stream, dict(case, model_line=line[:2000]), str(impl["result"])[:400] + " frames=%d" % len(impl["frames"]),
                             str(mod["result"])[:400] + " frames=%d" % len(mod["frames"]))
                break
            if impl["result"][0] == "raise":
                break
        pair.close()


# ------------------------------------------------------------------ replay / development

def unval(x):
    """the sexp text of a value (as stored in a case) -> python value"""
    v = sx.to_py(sx.parse(x)[0])

    def fix(y):
        if isinstance(y, tuple) and len(y) == 2 and y[0] == "f" and isinstance(y[1], int):
            return struct.unpack("<d", struct.pack("<Q", y[1]))[0]
        if isinstance(y, list):
            return [fix(z) for z in y]
        if isinstance(y, tuple):
            return tuple(fix(z) for z in y)
        if isinstance(y, dict):
            return {k: fix(z) for k, z in y.items()}
        return y
    return fix(v)


def replay_case(model, case):
    """re-run the session of a recorded mismatch; prints both sides per call; returns the number of mismatches"""
    c = core.Ctx("C18", "quick", case.get("seed", 0))
    calls = []
    for kind, shown in case["calls"]:
        if kind == "read":
            calls.append((kind, list(shown), []))
        else:
            calls.append((kind, [(t, unval(v)) for t, v in shown], []))
    run_session(c, model, case["config"], calls, case.get("index", 0), verbose=True)
    for m in c.mismatches:
        print(json.dumps(m, indent=1, default=repr)[:3000])
    return len(c.mismatches)


def main():
    import argparse
    import bridge
    ap = argparse.ArgumentParser()
    ap.add_argument("--n", type=int, default=100)
    ap.add_argument("--seed", type=int, default=0)
    ap.add_argument("--replay")
    a = ap.parse_args()
    model = bridge.Model()
    if a.replay:
        data = json.load(open(a.replay))
        case = data.get("case", data)
        n = replay_case(model, case)
        print("mismatches:", n)
        model.close()
        return
    ctx = core.Ctx("C18", "quick", a.seed)
    run(ctx, model, a.n)
    model.close()
    st = ctx.streams.get(STREAM, {})
    print("sessions %d, calls %d, mismatches %d" % (a.n, st.get("cases", 0), st.get("mismatches", 0)))
    for k in sorted(ctx.dist):
        if k.startswith(STREAM):
            print("  %-60s %d" % (k, ctx.dist[k]))
    for m in ctx.mismatches[:12]:
        c = m["case"]
        print("MISMATCH index=%s field=%s mode=%s\n  last call: %s\n  impl : %s\n  model: %s" % (
            c.get("index"), c.get("field"), c["config"]["mode"], repr(c["calls"][-1] if c["calls"] else None)[:500], m["impl"][:500], m["model"][:500]))
    for k, m in enumerate(ctx.mismatches[:12]):
        with open("/tmp/slcdrv_mismatch_%d_%d.json" % (a.seed, k), "w") as f:
            json.dump(m, f, default=repr)
    if ctx.mismatches:
        print("mismatches saved to /tmp/slcdrv_mismatch_<seed>_<k>.json (replay with --replay)")


if __name__ == "__main__":
    main()
