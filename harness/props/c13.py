"""C13 — replies are classified by their status words; bad replies cannot pass or crash.
Level 1 (here): the response classes on synthesized reply frames (exhaustive status x ext-size x service x
transport; truncations; corruptions).  Level 2: public calls through the fake socket (transcripts.py)."""
import struct

import core
import sx
import tygen


class Req:
    """minimal request stub the response classes look at"""
    def __init__(self, data_type=None):
        self.data_type = data_type


def build_reply(transport, service_reply, status, ext_words, data, encap_status=0, session=0x1001, seq=7):
    """a well-formed SendUnitData / SendRRData reply frame"""
    mr = bytes([service_reply, 0, status, len(ext_words)]) + b"".join(struct.pack("<H", w) for w in ext_words) + data
    if transport == "conn":
        cpf = struct.pack("<IHH", 0, 0, 2) + struct.pack("<HHI", 0xA1, 4, 0x11223344) + struct.pack("<HH", 0xB1, len(mr) + 2) + struct.pack("<H", seq) + mr
        cmd = 0x70
    else:
        cpf = struct.pack("<IHH", 0, 0, 2) + struct.pack("<HH", 0, 0) + struct.pack("<HH", 0xB2, len(mr)) + mr
        cmd = 0x6F
    return struct.pack("<HHII8sI", cmd, len(cpf), session, encap_status, b"_pycomm_", 0) + cpf


def impl_generic(transport, dt_desc, raw):
    from pycomm3.packets.cip import GenericConnectedResponsePacket, GenericUnconnectedResponsePacket
    cls = GenericConnectedResponsePacket if transport == "conn" else GenericUnconnectedResponsePacket
    T = tygen.to_py(dt_desc) if dt_desc else None
    try:
        r = core.with_budget(5, cls, Req(T), raw)
        valid = bool(r)
        value = r.value
    except BaseException as e:  # noqa
        if isinstance(e, (KeyboardInterrupt, SystemExit)):
            raise
        return "err " + core.exn_class(e), None, None, None
    try:
        err = r.error
        errs = canon_err(err)
    except BaseException as e:  # noqa
        if isinstance(e, (KeyboardInterrupt, SystemExit)):
            raise
        err = e
        errs = "raise:" + core.exn_class(e)
    try:
        vs = sx.val(value)
    except sx.Unrenderable:
        vs = "?"
    return "ok %s %s %s" % ("T" if valid else "F", vs, errs), valid, value, err


def canon_err(err):
    if err is None:
        return "none"
    if err == "No response data received":
        return "noresp"
    if err.startswith("Failed to parse reply"):
        return "parsefail"
    if err == "Unknown Error":
        return "unknown"
    return sx.name(err)


def run(ctx, model):
    from pycomm3.cip import SERVICE_STATUS, MULTI_PACKET_SERVICES, Services
    rng = ctx.rng
    lines, pend = [], []
    # the services whose replies may legitimately carry status 6 ("more to come"): Read / Write Tag Fragmented, Get Instance
    # Attribute List, Multiple Service Packet, Get Attribute List (Logix 5000 data access manual; CIP Vol. 1) — written here,
    # NOT taken from the library's MULTI_PACKET_SERVICES, which is the thing under test
    multi = {0x52, 0x53, 0x55, 0x0A, 0x03}
    if {b[0] for b in MULTI_PACKET_SERVICES} != multi:
        ctx.violation("continuing-services-table-differs", {"table": sorted(b[0] for b in MULTI_PACKET_SERVICES)},
                      "MULTI_PACKET_SERVICES = %s, the services that legitimately answer status 6 are %s"
                      % (sorted(hex(b[0]) for b in MULTI_PACKET_SERVICES), sorted(hex(x) for x in multi)))

    def case(stream, transport, dt, raw, meta=None):
        out, valid, value, err = impl_generic(transport, dt, raw)
        ctx.case(stream, (stream, transport, repr(dt), raw))
        lines.append("reply.generic %s %s %s" % (transport, tygen.to_sx(dt) if dt else "N", sx.hexb(raw) if raw is not None else "N"))
        pend.append((stream, transport, raw, out))
        # ---- oracle on the implementation
        rep = {"transport": transport, "data_type": dt, "raw": raw.hex() if raw is not None else None}
        if out.startswith("err "):
            ctx.violation("response-class-raises:" + out[4:].split(":")[0], rep, out)
            return
        if isinstance(err, BaseException):
            if not core.exn_class(err) in ("data", "empty", "comm", "request", "response", "pycomm"):
                ctx.violation("error-property-raises-foreign:" + core.exn_class(err), rep, repr(err))
            return
        off = 46 if transport == "conn" else 40
        if raw is None or len(raw) < off + 3:
            if valid:
                ctx.violation("short-reply-reported-valid", rep, "reply of %s bytes is truthy" % (None if raw is None else len(raw)))
            elif not err:
                ctx.violation("invalid-reply-without-error-text", rep, out)
            return
        enc = struct.unpack_from("<i", raw, 8)[0]
        svc_reply, st = raw[off], raw[off + 2]
        should = enc == 0 and (st == 0 or (st == 6 and transport == "conn" and svc_reply >= 128 and (svc_reply - 128) in multi))
        if meta and meta.get("wellformed"):
            # validity is decided by the status words (plus: the value decodes, when a data type is given)
            decodes = meta.get("decodes", True)
            if valid != (should and decodes):
                ctx.violation("misclassified-reply", rep, "encap=%d service=%#x status=%#x -> valid=%s" % (enc, svc_reply, st, valid))
            if not valid:
                if not err:
                    ctx.violation("invalid-reply-without-error-text", rep, out)
                elif enc == 0 and st != 0 and svc_reply >= 128:
                    name = SERVICE_STATUS.get(st)
                    if not ((name and name in err) or ("%02x" % st) in err):
                        ctx.violation("error-text-does-not-name-status", rep, "status %#x, text %r" % (st, err))
                    ew = meta.get("ext")
                    from pycomm3.cip import EXTEND_CODES
                    if ew and len(ew) == 1 and ew[0] in EXTEND_CODES.get(st, {}) and EXTEND_CODES[st][ew[0]] not in err:
                        ctx.violation("error-text-lacks-extended-status", rep, "ext %#x, text %r" % (ew[0], err))
        else:
            if valid and not should:
                ctx.violation("invalid-status-words-reported-valid", rep, "encap=%d service=%#x status=%#x valid" % (enc, svc_reply, st))

    # ---- exhaustive: every status byte x ext sizes x reply services x transports
    services = sorted({b[0] for b in (getattr(Services, a) for a in Services.attributes)})
    svc_sample = [0x4C, 0x52, 0x4D, 0x53, 0x4E, 0x55, 0x0A, 0x03, 0x01, 0x0E, 0x54, 0x5B, 0x7F, 0x00] if ctx.tier == "quick" else services + [0x7F, 0x00, 0x20]
    for transport in ("conn", "unconn"):
        for st in range(256):
            for svc in (svc_sample if st in (0, 6, 1, 4, 5, 0xFF) or ctx.tier == "thorough" else [0x4C, 0x52, 0x0A]):
                for ext in ([], [0x0100], [0x2105], [1, 2], [1, 2, 3]) if st in (0, 1, 4, 5, 6, 0x1F, 0xFF, 0x20) else ([], [7]):
                    raw = build_reply(transport, svc | 0x80, st, ext, b"\xc4\x00\x2a\x00\x00\x00")
                    case("status-enum", transport, None, raw, {"wellformed": True, "ext": ext})
    ctx.extra["exhaustive_subdomains"] = "status 0..255 x extended sizes 0-3 x reply services x {connected, unconnected}"
    # encapsulation errors (header only and with body), reply service < 0x80
    for transport in ("conn", "unconn"):
        for enc in (1, 2, 3, 0x64, 0x65, 0x69, 0xFFFF, 0x7FFFFFFF, 0x80000000, 0xFFFFFFFF):
            hdr = struct.pack("<HHII8sI", 0x70 if transport == "conn" else 0x6F, 0, 0x1001, enc, b"_pycomm_", 0)
            case("encap-error", transport, None, hdr)
            case("encap-error", transport, None, build_reply(transport, 0xCC, 0, [], b"\x01\x02", encap_status=enc), {"wellformed": True})
        for svc in (0x4C, 0x00, 0x7F):
            case("request-code-as-reply", transport, None, build_reply(transport, svc, 0, [], b"\x01"))
        case("no-reply", transport, None, None)
    # with a data type: the value must decode
    for transport in ("conn", "unconn"):
        for dt, good, bad in [(("int", "dint", "DINT"), b"\x2a\x00\x00\x00", b"\x2a\x00"), (("str", "uint", "latin1", "STRING"), b"\x03\x00abc", b"\x09\x00abc"),
                              (("struct", [("a", ("int", "uint", "UINT"), True), ("b", ("int", "usint", "USINT"), True)]), b"\x01\x00\x02", b"\x01")]:
            for st in (0, 6, 8):
                case("typed", transport, dt, build_reply(transport, 0x81, st, [], good), {"wellformed": True, "decodes": True})
                case("typed", transport, dt, build_reply(transport, 0x81, st, [], bad), {"wellformed": True, "decodes": False})
    # ---- every truncation of valid replies; corruptions
    for transport in ("conn", "unconn"):
        for st, ext in ((0, []), (1, [0x0100]), (6, []), (4, [0])):
            raw = build_reply(transport, 0xCC, st, ext, b"\xc4\x00\x2a\x00\x00\x00")
            for cut in range(len(raw) + 1):
                case("truncated", transport, None, raw[:cut])
                if cut % 3 == 0:
                    case("truncated", transport, ("int", "dint", "DINT"), raw[:cut])
    for _ in range(ctx.budget(1500, 20000)):
        transport = rng.choice(["conn", "unconn"])
        raw = bytearray(build_reply(transport, rng.choice([0xCC, 0xD2, 0x8A, 0x81]), rng.choice([0, 0, 6, 1, 5]),
                                    rng.choice([[], [1], [0x100]]), bytes(rng.getrandbits(8) for _ in range(rng.randint(0, 12)))))
        for _ in range(rng.choice([1, 1, 2, 4])):
            i = rng.randrange(len(raw))
            raw[i] = rng.getrandbits(8) if rng.random() < 0.5 else raw[i] ^ (1 << rng.randrange(8))
        case("corrupted", transport, rng.choice([None, None, ("int", "dint", "DINT")]), bytes(raw))
    for _ in range(ctx.budget(300, 3000)):
        case("random-bytes", rng.choice(["conn", "unconn"]), None, bytes(rng.getrandbits(8) for _ in range(rng.choice([0, 1, 2, 8, 12, 24, 40, 41, 43, 44, 46, 49, 50, 60]))))
    ctx.sample({"example": lines[100][:200]})
    # ---- driver level
    try:
        from props import transcripts
    except ImportError:
        transcripts = None
    if transcripts is not None and hasattr(transcripts, "run_c13"):
        transcripts.run_c13(ctx, model)
    else:
        ctx.notes.append("public-call level (read/write/generic_message through the fake socket) not built yet")
    run_public(ctx, model)
    run_multi_packet(ctx, model)
    from props import kernels
    kernels.run_multi(ctx, model, "C13")
    from props import logixdrv
    logixdrv.run_altered(ctx, model, "C13")
    logixdrv.run_reupload_pair(ctx, model, "C13")
    from props import slcdrv
    slcdrv.run_altered(ctx, model, n=ctx.budget(15, 150))
    if transcripts is not None:
        l2, p2 = [], []
        transcripts.run_altered_client(ctx, model, l2, p2, "C13")
        transcripts.flush(ctx, model, l2, p2)
    outs = model.batch(lines)
    for (stream, transport, raw, impl), out in zip(pend, outs):
        if out != impl:
            ctx.mismatch(stream, {"transport": transport, "raw": None if raw is None else raw.hex()[:200]}, impl[:300], out[:300])


def run_public(ctx, model):
    """public-call level: the real LogixDriver against the reference controller; the k-th connected reply of a call is
    replaced by one carrying a CIP error status (or is cut short).  Whatever the position — also a later fragment of a
    fragmented transfer — the request it belongs to must come back falsy with a non-empty error, never as success and
    never as a foreign exception."""
    from props.c04 import sized_project
    from props import logix as lx
    rng = ctx.rng
    STAT = [(0x05, []), (0x10, []), (0xFF, [0x2105]), (0x04, [0]), (0x1F, [0x0203])]
    ENCAP = [0x65, 0x01, 0x03, 0x64, 0x69, 0x10000, 0x80000000]

    def err_reply(reply, status, ext):
        # connected reply: 44 bytes of encapsulation + CPF, sequence count, reply service, reserved, status, ext size, ext words
        body = reply[:48] + bytes([status, len(ext)]) + b"".join(e.to_bytes(2, "little") for e in ext)
        body = bytearray(body)
        struct.pack_into("<H", body, 2, len(body) - 24)
        struct.pack_into("<H", body, 42, len(body) - 44)
        return bytes(body)

    scenarios = []
    for big in (1400, 700):
        scenarios += [("write-fragmented", big), ("read-fragmented", big)]
    scenarios += [("write", 40), ("read", 40), ("bit-write", 4), ("multi-write", 60), ("multi-read", 60)]
    for kind, size in scenarios:
        # how many connected replies does the healthy call take?
        def session():
            p = sized_project(rng, [(size, "big"), (60, "o0"), (60, "o1")])
            s = lx.Session(model, p, conn_large=False)
            return p, s

        def call(s):
            if kind.startswith("write"):
                return s.d.write(("big{%d}" % size, [1] * size))
            if kind.startswith("read"):
                return s.d.read("big{%d}" % size)
            if kind == "bit-write":
                return s.d.write(("big[1].3", True))
            if kind == "multi-write":
                return s.d.write(("big{%d}" % size, [2] * size), ("o0{4}", [1, 2, 3, 4]), ("o1[5]", 7))
            return s.d.read("big{%d}" % size, "o0{4}", "o1[5]")
        p, s = session()
        if s.open_error is not None:
            ctx.count("open-failed")
            s.close()
            continue
        n0 = len([r for r in s.sock.replies if r[:2] == b"\x70\x00"])
        healthy = call(s)
        n_replies = len([r for r in s.sock.replies if r[:2] == b"\x70\x00"]) - n0
        s.close()
        hl = healthy if isinstance(healthy, list) else [healthy]
        if not all(hl):
            ctx.violation("healthy-call-fails:" + kind, {"kind": kind, "bytes": size}, str([lx.tag_summary(t) for t in hl])[:300])
            continue
        positions = list(range(n_replies)) if ctx.tier == "thorough" or n_replies <= 4 else sorted({0, 1, n_replies // 2, n_replies - 2, n_replies - 1})
        for k in positions:
            # "encap": the reply keeps its body but carries a non-zero encapsulation status; "encap-all": every connected
            # reply of the call does (then no request of the call may come back as success)
            for how in (["status"] * 2 + ["cut47", "cut48", "encap"] + (["encap-all"] if k == positions[0] else [])) if ctx.tier == "quick" \
                    else (["status"] * len(STAT) + ["cut47", "cut48", "cut46", "encap"] + (["encap-all"] if k == positions[0] else [])):
                status, ext = rng.choice(STAT) if ctx.tier == "quick" else STAT[positions.index(k) % len(STAT)]
                p, s = session()
                if s.open_error is not None:
                    s.close()
                    continue
                seen = {"n": 0}

                def flt(reply, seen=seen, k=k, how=how, status=status, ext=ext):
                    if reply[:2] != b"\x70\x00":
                        return reply
                    i = seen["n"]
                    seen["n"] += 1
                    if how.startswith("encap") and (i == k or how == "encap-all"):
                        out = bytearray(reply)
                        struct.pack_into("<I", out, 8, ENCAP[(k + len(kind)) % len(ENCAP)])
                        return bytes(out)
                    if i != k:
                        return reply
                    if how == "status":
                        return err_reply(reply, status, ext)
                    cut = int(how[3:])
                    out = bytearray(reply[:cut])
                    struct.pack_into("<H", out, 2, len(out) - 24)
                    return bytes(out)
                # count only the replies of the call itself
                base_filter_start = len([r for r in s.sock.replies if r[:2] == b"\x70\x00"])
                seen["n"] = -0
                s.sock.reply_filter = flt
                case = {"call": kind, "bytes": size, "connected_replies_of_a_healthy_call": n_replies, "altered_reply": k, "alteration": how,
                        "status": status if how == "status" else None}
                ctx.case("public-calls", ("pub", kind, size, k, how, status))
                ctx.count("public/%s/%s" % (kind, how))
                try:
                    res = core.with_budget(60, call, s)
                except BaseException as e:  # noqa
                    if isinstance(e, (KeyboardInterrupt, SystemExit)):
                        raise
                    cls = core.exn_class(e)
                    if cls.startswith("foreign") or cls == "hang":
                        ctx.violation("public-call-raises-foreign:" + cls.split(":")[-1], case, repr(e)[:300])
                    s.close()
                    continue
                rl = res if isinstance(res, list) else [res]
                # the first request of the call is the one whose transfer was hit when the call is a single transfer;
                # in the multi calls every request shares the packet
                hit = rl if kind.startswith("multi") else rl[:1]
                if how == "encap-all":
                    bad = [t for t in rl if t]
                    if bad:
                        ctx.violation("encapsulation-error-reported-as-success:" + kind, case,
                                      "every connected reply of the call carried a non-zero encapsulation status, result %s"
                                      % [lx.tag_summary(t) for t in bad][:3])
                    for t in rl:
                        if not t and not t.error:
                            ctx.violation("falsy-result-without-error-text:" + kind, case, str(lx.tag_summary(t)))
                elif how != "status" or True:
                    bad = [t for t in hit if t]
                    # in a multi call only the requests carried by the altered packet must fail: at least one does
                    if (kind.startswith("multi") and len(bad) == len(hit)) or (not kind.startswith("multi") and bad):
                        ctx.violation("failed-reply-reported-as-success:" + kind, case,
                                      "reply %d of %d was replaced by %s, result %s" % (k, n_replies, how if how != "status" else "status %#x" % status,
                                                                                      [lx.tag_summary(t) for t in rl][:3]))
                    for t in hit:
                        if not t and not t.error:
                            ctx.violation("falsy-result-without-error-text:" + kind, case, str(lx.tag_summary(t)))
                s.close()


def run_multi_packet(ctx, model):
    """packet level of the multi-service rule: `_send_requests` fails every embedded reply of a packet whose encapsulation
    status is not 0.  Model function `multiPacketError` and the number of embedded replies against
    `MultiServiceResponsePacket` on well-formed, status-altered, truncated and corrupted multi-service replies."""
    from pycomm3.packets.logix import MultiServiceResponsePacket
    from pycomm3.packets.cip import GenericConnectedResponsePacket
    from pycomm3.const import SUCCESS
    rng = ctx.rng

    class Sub:
        response_class = GenericConnectedResponsePacket
        data_type = None

    class Outer:
        requests = [Sub() for _ in range(40)]

    def body(n, sts):
        subs = [bytes([0xCC, 0, sts[i % len(sts)], 0]) + (b"\xc4\x00" + bytes(rng.getrandbits(8) for _ in range(4)) if sts[i % len(sts)] == 0 else b"")
                for i in range(n)]
        offs, pos = [], 2 + 2 * n
        for b in subs:
            offs.append(pos)
            pos += len(b)
        return struct.pack("<H", n) + b"".join(struct.pack("<H", o) for o in offs) + b"".join(subs)

    lines, pend = [], []
    raws = []
    for enc in (0, 0, 1, 3, 0x65, 0x69, 0x10000, 0x7FFFFFFF, 0x80000000, 0xFFFFFFFF):
        for outer_st in (0, 0x1E, 5):
            for n in (0, 1, 2, 5):
                raw = build_reply("conn", 0x8A, outer_st, [], body(n, [0, 0, 4]), encap_status=enc)
                raws.append(raw)
        raws.append(struct.pack("<HHII8sI", 0x70, 0, 0x1001, enc, b"_pycomm_", 0))
    base = build_reply("conn", 0x8A, 0, [], body(3, [0]), encap_status=0x65)
    raws += [base[:c] for c in range(len(base) + 1)]
    for _ in range(ctx.budget(300, 4000)):
        raw = bytearray(build_reply("conn", 0x8A, rng.choice([0, 0, 0x1E]), [], body(rng.randint(0, 4), [0, rng.choice([0, 5])]),
                                    encap_status=rng.choice([0, 0, 0x65, 1, rng.getrandbits(32)])))
        for _ in range(rng.choice([0, 1, 1, 3])):
            i = rng.randrange(len(raw))
            raw[i] = rng.getrandbits(8) if rng.random() < 0.5 else raw[i] ^ (1 << rng.randrange(8))
        raws.append(bytes(raw))
    raws.append(None)
    for raw in raws:
        ctx.case("multi-packet", ("mp", raw))
        try:
            r = core.with_budget(5, MultiServiceResponsePacket, Outer(), raw)
            try:
                pe = r.error if r.command_status != SUCCESS else None
                out = "ok %s %d" % (canon_err(pe), len(r.responses))
            except BaseException as e:  # noqa
                if isinstance(e, (KeyboardInterrupt, SystemExit)):
                    raise
                out = "ok raise:%s %d" % (core.exn_class(e), len(r.responses))
        except BaseException as e:  # noqa
            if isinstance(e, (KeyboardInterrupt, SystemExit)):
                raise
            out = "err " + core.exn_class(e)
        lines.append("ld.multipkt %s" % (sx.hexb(raw) if raw is not None else "N"))
        pend.append((raw, out))
    outs = model.batch(lines)
    for (raw, impl), out in zip(pend, outs):
        # the model reports every embedded reply, the library pairs them with the (here 40) requests
        if out.startswith("ok "):
            head, n = out.rsplit(" ", 1)
            out = "%s %d" % (head, min(int(n), 40))
        # without embedded replies there is nothing the packet error could be attached to (the library then holds the
        # failure of its own multi-service parse, which `_send_requests` never looks at)
        if out.endswith(" 0") and impl.endswith(" 0") and not out.startswith("ok raise") and not impl.startswith("ok raise"):
            out = impl = "ok - 0"
        if out != impl:
            ctx.mismatch("multi-packet", {"raw": None if raw is None else raw.hex()[:300]}, impl[:300], out[:300])


def replay(ctx, model, data):
    inp = data["input"]
    if "call" in inp:
        c = core.Ctx("C13", data.get("tier", "quick"), data.get("seed", 0))
        run(c, model)
        return any(v["sig"] == data["sig"] for v in c.violations)
    raw = bytes.fromhex(inp["raw"]) if inp["raw"] is not None else None
    dt = inp["data_type"]
    if dt:
        from props.codec import _detuple
        dt = _detuple(dt)
    out, valid, value, err = impl_generic(inp["transport"], dt, raw)
    print("response ->", out[:300])
    c = core.Ctx("C13", "quick", 0)
    return True
