"""C10 — connection lifecycle is safe under any call history and failure point."""
import re

import core
from props import transcripts as tr


def oracle(ctx, impl, case, policy, faults):
    ops = case["ops"]
    # 1. failures surface only as library exceptions or falsy Tags
    for i, r in enumerate(impl["results"]):
        for m in re.finditer(r"\(raise ([^)]*)\)", r):
            cls = m.group(1)
            if cls.startswith("foreign") and cls != "foreign:UserError" or cls == "hang":
                ctx.violation("non-library-exception:" + cls.split(":")[-1], dict(case, op_index=i), "op %s -> %s" % (ops[i], r[:200]))
    # 2. nothing on a connection before registration + successful Forward Open; FO order and sizes
    log = impl["log"]
    for m in re.finditer(r"\(violation \(s([0-9 ]*)\)\)", log):
        text = "".join(chr(int(c)) for c in m.group(1).split())
        if "SendUnitData without a registered session" in text or "not open" in text:
            ctx.violation("sent-before-open:" + text[:30], case, text)
    large_refused = False
    for m in re.finditer(r"\(fo ([TF]) (\d+) ([TF])\)", log):
        large, size, ok = m.group(1) == "T", int(m.group(2)), m.group(3) == "T"
        if large:
            if size != 4000:
                ctx.violation("extended-forward-open-wrong-size", case, "size %d" % size)
            if not ok:
                large_refused = True
        else:
            if not large_refused:
                ctx.violation("standard-forward-open-before-extended", case, "standard FO although no extended FO was refused")
            if size != 500:
                ctx.violation("standard-forward-open-wrong-size", case, "size %d" % size)
    # 3. after close: not connected, target holds nothing, later open works again
    opened_after_close = False
    for i, (op, (connected, state)) in enumerate(zip(ops, impl["snaps"])):
        if op == "(close)":
            if connected:
                ctx.violation("connected-after-close", dict(case, op_index=i), "driver.connected is True after close()")
            if "(sessions )" not in state.replace("(sessions)", "(sessions )") or "(conns )" not in state.replace("(conns)", "(conns )"):
                ctx.violation("target-holds-state-after-close", dict(case, op_index=i), state)
            # reopen on a healthy target (no fault left, session policy ok)
            later = ops[i + 1:]
            if later and later[0] == "(open)" and policy[0]:
                res = impl["results"][i + 1]
                remaining_fault = any(True for (kind, k) in faults)  # conservatively skip when any fault is planned
                if not remaining_fault and res != "(ok T)":
                    ctx.violation("reopen-after-close-fails", dict(case, op_index=i + 1), res)


def run(ctx, model):
    rng = ctx.rng
    lines, pend = [], []
    n = ctx.budget(350, 4000)
    maxlen = ctx.budget(4, 6)
    for i in range(n):
        scn, policy, generic = tr.gen_base(rng)
        ops = tr.gen_history(rng, maxlen)
        faults = tr.random_faults(rng, len(ops))
        path = rng.choice(["10.0.0.1", "10.0.0.1/bp/1", "10.0.0.1/bp/1/enet/10.11.12.13/bp/0"])
        rnd = [bytes(rng.getrandbits(8) for _ in range(8)) for _ in range(8)]
        ctx.count("policy/%s" % (policy,))
        ctx.count("faults/%s" % (",".join("%s:%s" % (k[0], v) for k, v in faults.items()) or "none"))
        impl = tr.run_case(ctx, model, lines, pend, "history", "C10", scn, path, rng.random() < 0.5, faults, rnd, ops,
                           check=lambda impl, case, policy=policy, faults=faults: oracle(ctx, impl, case, policy, faults))
        if i < 3:
            ctx.sample({"ops": [tr.op_sx(o) for o in ops], "faults": str(faults), "results": impl["results"]})
    # every single-fault position of a fixed representative history
    rep = [("open",), tr.gen_gm(rng, connected=True), tr.gen_gm(rng, connected=False), ("close",), ("open",), tr.gen_gm(rng, connected=True), ("close",)]
    for policy in [(True, True, True), (True, False, True), (True, False, False), (False, True, True)]:
        scn, _, _ = tr.gen_base(rng, policy=policy, generic=(0, (), b"\x01\x02"))
        for k in range(0, 14):
            for kind, how in (("send", "raise"), ("send", "drop"), ("recv", "raise")):
                faults = {(kind, k): how}
                tr.run_case(ctx, model, lines, pend, "single-fault-sweep", "C10", scn, "10.0.0.1/bp/0", False, faults,
                            [b"\x22" * 8, b"\x33" * 8], rep,
                            check=lambda impl, case, policy=policy, faults=faults: oracle(ctx, impl, case, policy, faults))
    ctx.extra["exhaustive_subdomains"] = "every single-fault position (send raises / message lost / receive raises) x 4 target policies of a 7-call representative history"
    tr.flush(ctx, model, lines, pend)


def replay(ctx, model, data):
    print("replay of driver-level cases re-runs the whole stream with the recorded seed")
    c = core.Ctx("C10", data.get("tier", "quick"), data.get("seed", 0))
    run(c, model)
    return any(v["sig"] == data["sig"] for v in c.violations)
