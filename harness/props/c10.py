"""C10 — connection lifecycle is safe under any call history and failure point."""
import re

import core
import sx
from props import transcripts as tr


def oracle(ctx, impl, case, policy, faults):
    ops = case["ops"]
    # 1. failures surface only as library exceptions or falsy Tags
    for i, r in enumerate(impl["results"]):
        for m in re.finditer(r"\(raise ([^)]*)\)", r):
            cls = m.group(1)
            if cls.startswith("foreign") and cls != "foreign:UserError" or cls == "hang":
                ctx.violation("non-library-exception:" + cls.split(":")[-1], dict(case, op_index=i), "op %s -> %s" % (ops[i], r[:200]))
    # 2. nothing on a connection before registration + successful Forward Open; FO order and sizes
    log = impl["log"]
    for m in re.finditer(r"\(violation \(s([0-9 ]*)\)\)", log):
        text = "".join(chr(int(c)) for c in m.group(1).split())
        if "SendUnitData without a registered session" in text or "not open" in text:
            ctx.violation("sent-before-open:" + text[:30], case, text)
    large_refused = False
    for m in re.finditer(r"\(fo ([TF]) (\d+) ([TF])\)", log):
        large, size, ok = m.group(1) == "T", int(m.group(2)), m.group(3) == "T"
        if large:
            if size != 4000:
                ctx.violation("extended-forward-open-wrong-size", case, "size %d" % size)
            if not ok:
                large_refused = True
        else:
            if not large_refused:
                ctx.violation("standard-forward-open-before-extended", case, "standard FO although no extended FO was refused")
            if size != 500:
                ctx.violation("standard-forward-open-wrong-size", case, "size %d" % size)
    # 3. after close: not connected, target holds nothing, later open works again
    opened_after_close = False
    for i, (op, (connected, state)) in enumerate(zip(ops, impl["snaps"])):
        if op == "(close)":
            if connected:
                ctx.violation("connected-after-close", dict(case, op_index=i), "driver.connected is True after close()")
            if "(sessions )" not in state.replace("(sessions)", "(sessions )") or "(conns )" not in state.replace("(conns)", "(conns )"):
                ctx.violation("target-holds-state-after-close", dict(case, op_index=i), state)
            # reopen on a healthy target (no fault left, session policy ok)
            later = ops[i + 1:]
            if later and later[0] == "(open)" and policy[0]:
                res = impl["results"][i + 1]
                remaining_fault = any(True for (kind, k) in faults)  # conservatively skip when any fault is planned
                if not remaining_fault and res != "(ok T)":
                    ctx.violation("reopen-after-close-fails", dict(case, op_index=i + 1), res)


def run(ctx, model):
    rng = ctx.rng
    lines, pend = [], []
    n = ctx.budget(350, 4000)
    maxlen = ctx.budget(4, 6)
    for i in range(n):
        scn, policy, generic = tr.gen_base(rng)
        ops = tr.gen_history(rng, maxlen)
        faults = tr.random_faults(rng, len(ops))
        path = rng.choice(["10.0.0.1", "10.0.0.1/bp/1", "10.0.0.1/bp/1/enet/10.11.12.13/bp/0"])
        rnd = [bytes(rng.getrandbits(8) for _ in range(8)) for _ in range(8)]
        ctx.count("policy/%s" % (policy,))
        ctx.count("faults/%s" % (",".join("%s:%s" % (k[0], v) for k, v in faults.items()) or "none"))
        impl = tr.run_case(ctx, model, lines, pend, "history", "C10", scn, path, rng.random() < 0.5, faults, rnd, ops,
                           check=lambda impl, case, policy=policy, faults=faults: oracle(ctx, impl, case, policy, faults))
        if i < 3:
            ctx.sample({"ops": [tr.op_sx(o) for o in ops], "faults": str(faults), "results": impl["results"]})
    # every single-fault position of a fixed representative history
    rep = [("open",), tr.gen_gm(rng, connected=True), tr.gen_gm(rng, connected=False), ("close",), ("open",), tr.gen_gm(rng, connected=True), ("close",)]
    for policy in [(True, True, True), (True, False, True), (True, False, False), (False, True, True)]:
        scn, _, _ = tr.gen_base(rng, policy=policy, generic=(0, (), b"\x01\x02"))
        for k in range(0, 14):
            for kind, how in (("send", "raise"), ("send", "drop"), ("recv", "raise")):
                faults = {(kind, k): how}
                tr.run_case(ctx, model, lines, pend, "single-fault-sweep", "C10", scn, "10.0.0.1/bp/0", False, faults,
                            [b"\x22" * 8, b"\x33" * 8], rep,
                            check=lambda impl, case, policy=policy, faults=faults: oracle(ctx, impl, case, policy, faults))
    # the same sweep over a history whose first connection lives inside a `with` block: a transport fault in the body makes
    # the block end in a CommError; what `__exit__` leaves behind must not confuse the next open() of the same driver
    repw = [("with", [tr.gen_gm(rng, connected=True), tr.gen_gm(rng, connected=False), tr.gen_gm(rng, connected=True)], False),
            ("open",), tr.gen_gm(rng, connected=True), ("close",)]
    for policy in [(True, True, True), (True, False, True)]:
        scn, _, _ = tr.gen_base(rng, policy=policy, generic=(0, (), b"\x01\x02"))
        for k in range(0, 12):
            for kind, how in (("send", "raise"), ("send", "drop"), ("recv", "raise")):
                faults = {(kind, k): how}
                tr.run_case(ctx, model, lines, pend, "single-fault-sweep-with", "C10", scn, "10.0.0.1/bp/0", False, faults,
                            [b"\x22" * 8, b"\x33" * 8], repw,
                            check=lambda impl, case, policy=policy, faults=faults: oracle(ctx, impl, case, policy, faults))
    # the same discipline for the SLC driver object (it passes its own constructor arguments down to CIPDriver): session,
    # Forward Open kinds in order and with the sizes of the property, state after close — every target policy, no fault
    # and every single-fault position of the first connection
    from pycomm3 import SLCDriver
    for policy in [(True, True, True), (True, False, True), (True, False, False), (False, True, True)]:
        scn, _, _ = tr.gen_base(rng, policy=policy, generic=(0, (), b"\x01\x02"))
        plans = [{}] + [{(kind, k): how} for k in range(0, 6) for kind, how in (("send", "raise"), ("recv", "raise"))]
        for faults in plans:
            tr.run_case(ctx, model, lines, pend, "slc-driver-object", "C10", scn, "10.0.0.1/bp/0", False, faults,
                        [b"\x22" * 8, b"\x33" * 8], rep, driver_cls=SLCDriver,
                        check=lambda impl, case, policy=policy, faults=faults: oracle(ctx, impl, case, policy, faults))
    run_real_socket(ctx, model)
    tr.run_altered_client(ctx, model, lines, pend, "C10", n=ctx.budget(30, 300))
    ctx.extra["exhaustive_subdomains"] = "every single-fault position (send raises / message lost / receive raises) x 4 target policies of a 7-call representative history"
    tr.flush(ctx, model, lines, pend)


class SpinDetected(BaseException):
    pass


class RawTargetSock:
    """a raw TCP socket in front of the Lean target, for the REAL pycomm3.socket_.Socket: bytes in, bytes out.
    `vanish_after`: after that many reply bytes have been delivered the peer is gone (recv returns b"" for ever,
    as a closed TCP connection does); `chunk`: how many bytes one recv delivers at most."""

    def __init__(self, model, state):
        self.model, self.st = model, state
        self.out = bytearray()
        self.inb = bytearray()
        self.empty_reads = 0

    def settimeout(self, t):
        pass

    def setsockopt(self, *a):
        pass

    def connect(self, addr):
        self.st["connects"] += 1

    def send(self, data):
        import socket as _s
        if self.st["gone"]:
            raise _s.error("broken pipe")
        self.out += bytes(data)
        while len(self.out) >= 24:
            ln = int.from_bytes(self.out[2:4], "little")
            if len(self.out) < 24 + ln:
                break
            frame, self.out = bytes(self.out[:24 + ln]), self.out[24 + ln:]
            self.st["frames"].append(frame)
            out = self.model.ask("target.frame " + sx.hexb(frame))
            if out.startswith("ok "):
                body = out[3:]
                self.inb += bytes.fromhex(body[3:-1]) if len(body) > 3 else b""
        return len(data)

    def recv(self, n):
        import socket as _s
        st = self.st
        if st["vanish_after"] is not None and st["delivered"] >= st["vanish_after"]:
            st["gone"] = True
            self.empty_reads += 1
            if self.empty_reads > 3000:
                raise SpinDetected()          # the caller keeps reading a closed connection
            return b""
        if not self.inb:
            raise _s.timeout("timed out")
        k = min(n, st["chunk"], len(self.inb))
        if st["vanish_after"] is not None:
            k = min(k, st["vanish_after"] - st["delivered"])
        data, self.inb = bytes(self.inb[:k]), self.inb[k:]
        st["delivered"] += len(data)
        return data

    def close(self):
        if not self.st["gone"]:
            self.model.ask("target.tcpclose")


def run_real_socket(ctx, model):
    """the same lifecycle through the REAL Socket class over a raw byte pipe: the peer vanishes after any number of
    reply bytes (inside a header, inside a body, between frames).  Failures must surface as library exceptions,
    never as an endless read; after close() the driver reports not connected and a later open() on a fresh
    connection works."""
    import pycomm3.cip_driver as cd
    import pycomm3.socket_ as ps
    rng = ctx.rng
    history = [("open",), ("gmu",), ("gmc",), ("gmc",), ("close",), ("open",), ("gmc",), ("close",)]

    def run(vanish_after, chunk):
        scn, _, _ = tr.gen_base(rng, policy=(True, True, True), generic=(0, (), b"\x01\x02\x03\x04\x05"))
        assert model.ask("target.new " + scn) == "ok"
        st = {"vanish_after": vanish_after, "chunk": chunk, "delivered": 0, "gone": False, "frames": [], "connects": 0}
        real = ps.socket.socket
        ps.socket.socket = lambda *a, **k: RawTargetSock(model, st)
        results = []
        try:
            d = cd.CIPDriver("10.0.0.1/bp/0")
            for op in history:
                if st["gone"] and op[0] == "open":
                    # a new TCP connection reaches the (restarted) peer again
                    st.update(vanish_after=None, gone=False, fresh_peer=True)
                    model.ask("target.tcpclose")
                try:
                    def call():
                        if op[0] == "open":
                            return "ok:%s" % d.open()
                        if op[0] == "close":
                            d.close()
                            return "ok"
                        t = d.generic_message(service=0x0E, class_code=0x70, instance=1, attribute=1, connected=op[0] == "gmc", name="g")
                        return "tag:%s" % bool(t)
                    results.append(core.with_budget(20, call))
                except SpinDetected:
                    results.append("raise:hang")
                except BaseException as e:  # noqa
                    if isinstance(e, (KeyboardInterrupt, SystemExit)):
                        raise
                    results.append("raise:" + core.exn_class(e))
                if op[0] == "close" and d.connected:
                    results.append("connected-after-close")
        finally:
            ps.socket.socket = real
        return results, st

    healthy, st0 = run(None, 256)
    total = st0["delivered"]
    case0 = {"history": [h[0] for h in history], "reply_bytes_of_a_healthy_run": total}
    ctx.case("real-socket", ("rs", "healthy"))
    if any(r.startswith("raise") for r in healthy) or "connected-after-close" in healthy:
        ctx.violation("real-socket-healthy-history-fails", case0, str(healthy))
        return
    positions = list(range(0, total + 1)) if ctx.tier == "thorough" else sorted(set(
        list(range(0, 60)) + [rng.randrange(total + 1) for _ in range(40)] + [total - k for k in range(0, 30)]))
    for pos in positions:
        chunk = rng.choice([1, 7, 24, 256])
        res, st = run(pos, chunk)
        ctx.case("real-socket", ("rs", pos, chunk))
        ctx.count("real-socket/vanish-positions")
        case = dict(case0, peer_vanishes_after_reply_bytes=pos, recv_chunk=chunk, results=res)
        for r in res:
            if r == "raise:hang":
                ctx.violation("endless-read-on-closed-peer", case, "a call kept reading a connection the peer had closed")
                break
            if r.startswith("raise:foreign"):
                ctx.violation("non-library-exception:" + r.split(":")[-1], case, r)
                break
            if r == "connected-after-close":
                ctx.violation("connected-after-close", case, "driver.connected is True after close()")
                break
        # the history reopens after the first close: the second session must work whatever happened in the first
        if not any(r in ("raise:hang",) for r in res):
            tail = res[-3:] if "connected-after-close" not in res else res[-4:]
            if st.get("fresh_peer") and tail[0] != "ok:True":
                ctx.violation("reopen-after-close-fails", case, str(res))


def replay(ctx, model, data):
    print("replay of driver-level cases re-runs the whole stream with the recorded seed")
    c = core.Ctx("C10", data.get("tier", "quick"), data.get("seed", 0))
    run(c, model)
    return any(v["sig"] == data["sig"] for v in c.violations)
