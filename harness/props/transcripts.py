"""Driver-level runs: the REAL CIPDriver talks to the Lean reference target through harness/fakesock.py,
and the Lean client model (client.run) is run on the same scenario; transcripts are compared
(frames emitted, per-call results, final connection/session tables).  Also hosts the monitors that read
those transcripts for C10, C11, C14, C16, C17 and the public-call level of C13."""
import struct

import core
import sx
import fakesock
import refpath
from props.c13 import canon_err


class SharedNet:
    """counters and fault plan shared by every socket object of one run"""
    def __init__(self, model, faults):
        self.model = model
        self.faults = faults
        self.n_send = 0
        self.n_recv = 0
        self.frames = []
        self.replies = []
        self.tcp_open = False


class NetSocket(fakesock.TargetSocket):
    def __init__(self, shared):
        self.shared = shared
        keep = (shared.n_send, shared.n_recv)
        super().__init__(shared.model, shared.faults, shared.frames)
        shared.n_send, shared.n_recv = keep     # the base constructor zeroes the (shared) counters
        self.replies = shared.replies

    @property
    def n_send(self):
        return self.shared.n_send

    @n_send.setter
    def n_send(self, v):
        self.shared.n_send = v

    @property
    def n_recv(self):
        return self.shared.n_recv

    @n_recv.setter
    def n_recv(self, v):
        self.shared.n_recv = v


FAULT_SX = {"raise": "sendraise", "drop": "senddrop"}


def faults_sx(faults):
    out = []
    for (kind, k), how in sorted(faults.items()):
        out.append("(%s %d)" % ("recvraise" if kind == "recv" else FAULT_SX[how], k))
    return "(" + " ".join(out) + ")"


def lval_sx(v):
    return "(i %d)" % v if isinstance(v, int) else sx.hexb(v)


def route_sx(r):
    if r is True:
        return "T"
    if r is False or r is None:
        return "F"
    if isinstance(r, str):
        return sx.name(r)
    if isinstance(r, (bytes, bytearray)):
        return sx.hexb(r)
    return "(segs " + " ".join("(pt %s %s)" % (("(i %d)" % p) if isinstance(p, int) else sx.name(p),
                                                ("(i %d)" % l) if isinstance(l, int) else sx.name(l)) for p, l in r) + ")"


def op_sx(op):
    import tygen
    k = op[0]
    if k in ("open", "close", "listid"):
        return "(%s)" % k
    if k == "modinfo":
        return "(modinfo %d)" % op[1]
    if k in ("plcname", "plctime"):
        return "(%s)" % k
    if k == "plcinfo":
        return "(plcinfo %s)" % ("T" if op[1] else "F")
    if k == "setplctime":
        return "(setplctime %d)" % op[1]
    if k == "gm":
        a = op[1]
        return "(gm %d %s %s %s %s %s %s %s %s %s)" % (
            a["service"], lval_sx(a["class_code"]), lval_sx(a["instance"]), lval_sx(a.get("attribute", b"")),
            sx.hexb(a.get("request_data", b"")), tygen.to_sx(a["dt"]) if a.get("dt") else "N", sx.name(a.get("name", "generic")),
            "T" if a.get("connected", True) else "F", "T" if a.get("unconnected_send", False) else "F",
            route_sx(a.get("route_path", True)))
    if k == "pending":
        return "(pending%s)" % "".join(" " + sx.hexb(r) for r in op[1])
    if k == "with":
        return "(with (%s) %s)" % (" ".join(op_sx(o) for o in op[1]), "T" if op[2] else "F")
    raise ValueError(op)


class UserError(Exception):
    pass


def tag_str(t):
    v = t.value
    try:
        vs = sx.val(v)
    except sx.Unrenderable:
        vs = "?"
    return "(tag %s %s %s)" % ("T" if t else "F", vs, canon_err(t.error))


def exn_str(e):
    return "(raise %s)" % core.exn_class(e)


def run_impl(model, scn, path, auto, faults, rnd, ops, driver_cls=None, reply_filter=None):
    """-> dict(results, frames, connected, state, log)"""
    import pycomm3.cip_driver as cd
    import tygen
    from pycomm3.cip.data_types import PortSegment
    assert model.ask("target.new " + scn) == "ok"
    shared = SharedNet(model, faults)
    rnd_q = list(rnd)
    buf = bytearray()

    def fake_urandom(n):
        nonlocal buf
        if not buf:
            buf = bytearray(rnd_q.pop(0) if rnd_q else b"\x00" * 8)
        out = bytes(buf[:n])
        del buf[:n]
        return out
    old_ur, old_sock = cd.urandom, cd.Socket
    cd.urandom = fake_urandom
    def mk_sock(*a, **k):
        s_ = NetSocket(shared)
        s_.reply_filter = reply_filter      # applied to what the real driver reads only (the Lean client reads the target's own reply)
        return s_
    cd.Socket = mk_sock
    results = []
    try:
        if driver_cls is not None:
            class Drv(driver_cls):
                _auto_slot_cip_path = auto
                open = cd.CIPDriver.open      # session only: no controller initialisation
        else:
            class Drv(cd.CIPDriver):
                _auto_slot_cip_path = auto
        d = Drv(path)
        last_exc = []

        def do(op):
            k = op[0]
            try:
                if k == "open":
                    r = d.open()
                    return "(ok %s)" % ("T" if r else "F")
                if k == "close":
                    d.close()
                    return "(ok N)"
                if k == "listid":
                    r = d._list_identity()
                    return "(identity %s)" % sx.val(r)
                if k == "modinfo":
                    r = d.get_module_info(op[1])
                    return "(identity %s)" % sx.val(r)
                if k == "plcname":
                    return "(ok %s)" % sx.val(d.get_plc_name())
                if k == "plcinfo":
                    d._micro800 = op[1]
                    return "(identity %s)" % sx.val(d.get_plc_info())
                if k == "plctime":
                    t = d.get_plc_time()
                    return "(time %s %s)" % (sx.val(t.value["microseconds"]) if t.value else "N", canon_err(t.error))
                if k == "setplctime":
                    return tag_str(d.set_plc_time(op[1]))
                if k == "gm":
                    a = dict(op[1])
                    dt = a.pop("dt", None)
                    rp = a.get("route_path", True)
                    if isinstance(rp, list):
                        a["route_path"] = [PortSegment(p, l) for p, l in rp]
                    t = d.generic_message(data_type=tygen.to_py(dt) if dt else None, **a)
                    return tag_str(t)
                if k == "pending":
                    if d._sock is not None:
                        d._sock.pending[:] = list(op[1])
                    return "(ok N)"
                if k == "with":
                    outs = []
                    try:
                        with d:
                            for o in op[1]:
                                last_exc[:] = []
                                s = do(o)
                                outs.append(s)
                                if s.startswith("(raise"):
                                    # the block ends with the exception the call itself raised, so that `__exit__`
                                    # is handed what a user's block would hand it
                                    if last_exc and isinstance(last_exc[0], Exception):
                                        raise last_exc[0]
                                    raise StopBody()
                            if op[2]:
                                raise UserError()
                    except StopBody:
                        return "(with " + " ".join(outs) + ")"
                    except UserError:
                        return "(with " + " ".join(outs) + " (raise foreign:UserError))"
                    except BaseException as e:  # noqa  (open() in __enter__ failed, or the body's own exception)
                        if last_exc and e is last_exc[0]:
                            return "(with " + " ".join(outs) + ")"
                        return "(with " + " ".join(outs + [exn_str(e)]) + ")"
                    return "(with " + " ".join(outs) + ")"
            except BaseException as e:  # noqa
                if isinstance(e, (KeyboardInterrupt, SystemExit)):
                    raise
                last_exc[:] = [e]
                return exn_str(e)
            raise ValueError(op)
        snaps = []
        for op in ops:
            results.append(core.with_budget(20, do, op))
            snaps.append((d.connected, model.ask("target.state")[3:]))
        connected = d.connected
    finally:
        cd.urandom, cd.Socket = old_ur, old_sock
    state = model.ask("target.state")
    log = model.ask("target.log")
    return {"results": results, "frames": list(shared.frames), "connected": connected, "state": state[3:], "log": log[4:-1],
            "replies": list(shared.replies), "snaps": snaps}


class StopBody(Exception):
    pass


def run_model(model, scn, path, auto, faults, rnd, ops):
    line = "client.run %s (driver %s %s) %s (%s) (%s)" % (
        scn, sx.name(path), "T" if auto else "F", faults_sx(faults), " ".join(sx.hexb(r) for r in rnd),
        " ".join(op_sx(o) for o in ops))
    return line


def parse_model(out):
    """'ok (results …) (frames …) (connected T) (sessions …) (conns …) (time n) (log …)' -> dict of raw substrings"""
    if not out.startswith("ok "):
        return None
    items = _top_items(out[3:])
    d = {}
    for it in items:
        key = it[1:it.index(" ")] if " " in it else it[1:-1]
        d[key] = it
    return d


def _top_items(s):
    items, depth, start = [], 0, None
    for i, ch in enumerate(s):
        if ch == "(":
            if depth == 0:
                start = i
            depth += 1
        elif ch == ")":
            depth -= 1
            if depth == 0:
                items.append(s[start:i + 1])
    return items


def compare(ctx, stream, case, impl, mout):
    """transcript equality: results, frames, connected flag, session/connection tables"""
    m = parse_model(mout)
    if m is None:
        ctx.mismatch(stream, case, "transcript", mout[:300])
        return False
    want_results = "(results " + " ".join(impl["results"]) + ")" if impl["results"] else "(results )"
    want_frames = "(frames " + " ".join(sx.hexb(f) for f in impl["frames"]) + ")" if impl["frames"] else "(frames )"
    ok = True
    for name, want, got in (("results", want_results, m.get("results")), ("frames", want_frames, m.get("frames")),
                            ("connected", "(connected %s)" % ("T" if impl["connected"] else "F"), m.get("connected"))):
        if (want or "").replace(" )", ")") != (got or "").replace(" )", ")"):
            ctx.mismatch(stream, dict(case, field=name), (want or "")[:600], (got or "")[:600])
            ok = False
    st = " ".join(m.get(k, "") for k in ("sessions", "conns", "time"))
    if st.replace(" )", ")") != impl["state"].replace(" )", ")"):
        ctx.mismatch(stream, dict(case, field="target-state"), impl["state"][:300], st[:300])
        ok = False
    return ok


# ------------------------------------------------------------------ frame monitor (C11) and sequence monitor (C17)

def check_frame(f, session_known, cids, mr_shape=True):
    """independent strict check of one emitted frame; returns reason or None"""
    if len(f) < 24:
        return "shorter than a header"
    cmd, ln, sess, status, ctx8, opt = struct.unpack_from("<HHII8sI", f)
    if ln != len(f) - 24:
        return "length field %d but %d bytes follow" % (ln, len(f) - 24)
    if status != 0 or opt != 0:
        return "non-zero status/options"
    if cmd == 0x65:
        if sess != 0 or f[24:] != b"\x01\x00\x00\x00":
            return "register session body/handle"
        return None
    if cmd in (0x63,):
        return None if ln == 0 else "list identity with body"
    if sess not in session_known and not (sess == 0 and cmd == 0x6F):
        # (an unconnected request with handle 0 can only happen while no registration has succeeded)
        return "session handle %#x was never granted" % sess
    if cmd == 0x66:
        return None if ln == 0 else "unregister with body"
    if cmd not in (0x6F, 0x70):
        return "unexpected command %#x" % cmd
    b = f[24:]
    if len(b) < 16 or b[:4] != b"\0\0\0\0" or b[6:8] != b"\x02\x00":
        return "interface handle / item count"
    at, al = struct.unpack_from("<HH", b, 8)
    p = 12 + al
    if len(b) < p + 4:
        return "address item runs past the frame"
    dtp, dl = struct.unpack_from("<HH", b, p)
    if len(b) != p + 4 + dl:
        return "data item length %d but %d bytes present" % (dl, len(b) - p - 4)
    if cmd == 0x6F:
        if (at, al, dtp) != (0, 0, 0xB2):
            return "SendRRData items %#x/%d/%#x" % (at, al, dtp)
    else:
        if (at, al, dtp) != (0xA1, 4, 0xB1):
            return "SendUnitData items %#x/%d/%#x" % (at, al, dtp)
        if struct.unpack_from("<I", b, 12)[0] not in cids:
            return "connection id not the one granted by the target"
        if dl < 2:
            return "connected data without sequence count"
        mr = b[p + 4 + 2:]
        if mr_shape and (len(mr) < 2 or 2 + 2 * mr[1] > len(mr)):
            return "connected data: request path of %d words does not fit the %d bytes after the sequence count" % (mr[1] if len(mr) > 1 else -1, len(mr))
    return None


def monitor_frames(ctx, owner_focus, run, case):
    """C11 / C17 monitors over one implementation transcript"""
    sessions, cids = set(), set()
    last_seq = {}
    replies = list(run.get("replies", []))
    # sessions / connection ids granted so far are read from the replies in order of appearance
    granted_s, granted_c = set(), set()
    for r in replies:
        if len(r) >= 24:
            cmd, ln, sess, status = struct.unpack_from("<HHII", r)
            if cmd == 0x65 and status == 0:
                granted_s.add(sess)
            if cmd == 0x6F and len(r) >= 48 and r[40] in (0xD4, 0xDB) and r[42] == 0:
                granted_c.add(struct.unpack_from("<I", r, 44)[0])
    for i, f in enumerate(run["frames"]):
        why = check_frame(f, granted_s, granted_c)
        if why and owner_focus == "C11":
            ctx.violation("malformed-frame:" + why.split(" ")[0], dict(case, frame_index=i, frame=f.hex()), why)
        if len(f) >= 46 and f[:2] == b"\x70\x00":
            cid = f[36:40]
            seq = struct.unpack_from("<H", f, 44)[0]
            if last_seq.get(cid) == seq and owner_focus == "C17":
                ctx.violation("sequence-count-repeated", dict(case, frame_index=i), "count %d on two consecutive connected messages" % seq)
            last_seq[cid] = seq
    if "violation" in run["log"] and owner_focus in ("C11",):
        import re
        for m in re.finditer(r"\(violation \(s([0-9 ]*)\)\)", run["log"]):
            text = "".join(chr(int(c)) for c in m.group(1).split())
            if text.startswith("malformed encapsulation") or "common packet" in text or "non-zero status" in text or "bad body" in text:
                ctx.violation("target-rejected-frame:" + text.split(":")[0][:40], case, text)


# ------------------------------------------------------------------ scenario generators

def gen_gm(rng, connected=None):
    import tygen
    connected = rng.random() < 0.5 if connected is None else connected
    vals = [1, 2, 0x6B, 0x8B, 0xF5, 255, 256, 300, 65535, 65536, 0x01020304]
    def idv():
        r = rng.random()
        if r < 0.5:
            return rng.choice(vals)
        if r < 0.8:
            return bytes(rng.getrandbits(8) for _ in range(rng.choice([1, 2, 4])))
        return rng.getrandbits(rng.choice([8, 16, 32]))
    a = {"service": rng.choice([0x01, 0x0E, 0x10, 0x4C, 0x03, 0x32, rng.randrange(1, 128)]),
         "class_code": idv(), "instance": idv() if rng.random() < 0.85 else rng.choice([0, b"\x00"]),   # instance 0 = the class itself
         "name": rng.choice(["g", "my_msg"]), "connected": connected}
    if rng.random() < 0.5:
        a["attribute"] = idv() if rng.random() < 0.8 else rng.choice([0, b""])
    n = rng.choice([0, 0, 1, 2, 3, 7, 8, 33, 64, 250])
    a["request_data"] = bytes(rng.getrandbits(8) for _ in range(n))
    if not connected:
        a["unconnected_send"] = rng.random() < 0.5
        r = rng.random()
        if r < 0.3:
            a["route_path"] = True
        elif r < 0.45:
            a["route_path"] = False
        elif r < 0.65:
            a["route_path"] = rng.choice(["bp/2", "backplane/1/enet/10.11.12.13/bp/0", "1/0", "2/192.168.1.5", "bp\\3"])
        elif r < 0.8:
            a["route_path"] = rng.choice([b"\x01\x00\x01\x03", b"", b"\x02\x00\x01\x00\x01\x01"])
        else:
            a["route_path"] = [(rng.choice(["bp", "enet", 1, 2]), rng.choice([0, 1, 5, "10.0.0.9"])) for _ in range(rng.choice([1, 2]))]
    if rng.random() < 0.3:
        a["dt"] = rng.choice([("int", "dint", "DINT"), ("str", "uint", "latin1", "STRING"), ("arr", ("all",), ("int", "uint", "UINT"))])
    return ("gm", a)


def gen_history(rng, max_len):
    ops = []
    for _ in range(rng.randint(1, max_len)):
        r = rng.random()
        if r < 0.22:
            ops.append(("open",))
        elif r < 0.40:
            ops.append(("close",))
        elif r < 0.75:
            ops.append(gen_gm(rng))
        elif r < 0.82:
            ops.append(("listid",))
        elif r < 0.88:
            ops.append(("modinfo", rng.choice([0, 1, 5])))
        else:
            body = [gen_gm(rng) for _ in range(rng.choice([0, 1, 2]))]
            ops.append(("with", body, rng.random() < 0.3))
    return ops


def gen_base(rng, policy=None, generic=None, **kw):
    if policy is None:
        policy = rng.choice([(True, True, True), (True, True, True), (True, False, True), (True, False, False), (False, True, True)])
    if generic is None:
        r = rng.random()
        if r < 0.5:
            generic = (0, (), bytes(rng.getrandbits(8) for _ in range(rng.choice([0, 1, 4, 6, 20]))))
        else:
            generic = (rng.choice([1, 4, 5, 6, 8, 0x0E, 0x14, 0x1E, 0xFF]), rng.choice([(), (), (0x0100,), (1, 2)]), b"")
    if "ids" not in kw and rng.random() < 0.3:
        # boundary values of the handles the target grants: 0 is a legal connection id, the high bit a legal handle
        kw["ids"] = (rng.choice([1, 0x1001, 0x7FFFFFFF, 0x80000000, 0xFFFFFFFF]), rng.choice([0, 0, 1, 0x80000000, 0xFFFFFFFF, 0x00C0FFEE]))
    return fakesock.base_scenario(policy=policy, generic=generic, **kw), policy, generic


def random_faults(rng, n_ops):
    if rng.random() < 0.45:
        return {}
    k = rng.randrange(0, 3 * n_ops + 3)
    kind = rng.choice(["send", "send", "recv"])
    return {(kind, k): ("raise" if kind == "recv" else rng.choice(["raise", "drop"]))}


def run_case(ctx, model, lines, pend, stream, focus, scn, path, auto, faults, rnd, ops, extra_case=None, check=None,
             driver_cls=None, reply_filter=None):
    case = {"scenario": scn, "path": path, "auto": auto, "faults": [[k[0], k[1], v] for k, v in faults.items()],
            "rnd": [r.hex() for r in rnd], "ops": [op_sx(o) for o in ops]}
    if extra_case:
        case.update(extra_case)
    impl = run_impl(model, scn, path, auto, faults, rnd, ops, driver_cls=driver_cls, reply_filter=reply_filter)
    ctx.case(stream, (stream, scn, path, repr(faults), tuple(case["ops"])))
    monitor_frames(ctx, focus, impl, case)
    if check:
        check(impl, case)
    lines.append(run_model(model, scn, path, auto, faults, rnd, ops))
    pend.append((stream, case, impl))
    return impl


def flush(ctx, model, lines, pend):
    # the model runs are independent of the interactive target state: ask one by one (a fresh process state is not needed)
    for line, (stream, case, impl) in zip(lines, pend):
        out = model.ask(line)
        compare(ctx, stream, {"ops": case["ops"], "faults": case["faults"], "path": case["path"], "scenario": case["scenario"][:200]}, impl, out)
    lines.clear()
    pend.clear()


def alter_client_reply(rng, reply):
    """one alteration of an encapsulated reply (any command) -> (description, bytes)"""
    out = bytearray(reply)

    def relen(b):
        if len(b) >= 4:
            struct.pack_into("<H", b, 2, max(0, len(b) - 24))
        return bytes(b)
    how = rng.choice(["encap", "encap", "cut", "cut", "cut", "flip", "flip", "status", "status", "command", "session", "items"])
    st_off = 48 if reply[:2] == b"\x70\x00" else 42
    if how == "encap" and len(out) >= 12:
        st = rng.choice([1, 2, 3, 0x64, 0x65, 0x69, 0x10000, 0x80000000, 0xFFFFFFFF])
        struct.pack_into("<I", out, 8, st)
        return "encapsulation status %#x" % st, bytes(out)
    if how == "cut":
        n = rng.choice([0, 1, 2, 4, 8, 11, 12, 23, 24, 26, 28, 30, 40, 41, 42, 43, 44, 46, 47, 48, 49, 50, rng.randint(0, max(0, len(out) - 1))])
        n = min(n, len(out))
        return "cut to %d bytes" % n, relen(out[:n])
    if how == "flip" and out:
        i = rng.randrange(len(out))
        out[i] ^= 1 << rng.randrange(8)
        return "bit flipped in byte %d" % i, bytes(out)
    if how == "status" and len(out) > st_off + 1:
        st = rng.choice([1, 4, 5, 6, 8, 0x1E, 0xFF])
        ext = rng.choice([[], [], [0x0100], [0x2105], [1, 2]])
        body = out[:st_off] + bytes([st, len(ext)]) + b"".join(struct.pack("<H", e) for e in ext)
        b = bytearray(body)
        struct.pack_into("<H", b, 2, len(b) - 24)
        if len(b) >= st_off - 4:
            struct.pack_into("<H", b, st_off - 6 if st_off == 48 else st_off - 4, len(b) - (st_off - 4 if st_off == 48 else st_off - 2))
        return "status %#x ext %s" % (st, ext), bytes(b)
    if how == "command" and len(out) >= 2:
        out[0] = rng.choice([0x65, 0x66, 0x6F, 0x70, 0x63, 0x00, 0xFF])
        return "command %#x" % out[0], bytes(out)
    if how == "session" and len(out) >= 8:
        struct.pack_into("<I", out, 4, rng.choice([0, 1, 0xFFFFFFFF, rng.getrandbits(32)]))
        return "session handle changed", bytes(out)
    if how == "items" and len(out) >= 32:
        struct.pack_into("<H", out, 30, rng.choice([0, 1, 3, 0xFFFF]))
        return "item count changed", bytes(out)
    return "unchanged", bytes(out)


def run_altered_client(ctx, model, lines, pend, focus, n=None):
    """CIPDriver histories with scripted replies: the history runs healthy, then again with the socket's queue
    pre-loaded (pseudo-call `pending`, after a call that left the driver with a socket) with the healthy replies of the
    rest of the history of which one is altered — encapsulation status, cut at any length, a flipped bit, a CIP error
    status, another command code, session handle or item count.  Forward Open / Forward Close / generic / identity
    replies are all reached this way.  Transcript equality with the Lean client; nothing but library exceptions."""
    rng = ctx.rng
    n = ctx.budget(60, 600) if n is None else n
    for i in range(n):
        scn, policy, generic = gen_base(rng, policy=rng.choice([(True, True, True), (True, True, True), (True, False, True)]))
        path = rng.choice(["10.0.0.1", "10.0.0.1/bp/1", "10.0.0.1/bp/1/enet/10.11.12.13/bp/0"])
        auto = rng.random() < 0.5
        rnd = [bytes(rng.getrandbits(8) for _ in range(8)) for _ in range(8)]
        ops = [("open",)]
        for _ in range(rng.randint(1, 4)):
            r = rng.random()
            if r < 0.6:
                ops.append(gen_gm(rng))
            elif r < 0.7:
                ops.append(("listid",))
            elif r < 0.8:
                ops.append(("modinfo", rng.choice([0, 1, 5])))
            elif r < 0.9:
                ops.append(("close",))
                ops.append(("open",))
            else:
                ops.append(("listid",))
        if rng.random() < 0.6:
            ops.append(("close",))
        # insertion points: behind a call after which the driver holds a socket
        has_sock, points = False, []
        for j, o in enumerate(ops):
            if o[0] == "open":
                has_sock = True
            elif o[0] == "close":
                has_sock = False
            if has_sock and j + 1 < len(ops):
                points.append(j + 1)
        if not points:
            continue
        j = rng.choice(points)
        full = run_impl(model, scn, path, auto, {}, rnd, ops)
        if any(r.startswith("(raise") for r in full["results"][:j]):
            continue
        pre = run_impl(model, scn, path, auto, {}, rnd, ops[:j])
        tail = [r for r in full["replies"][len(pre["replies"]):]]
        if not tail:
            continue
        k = rng.randrange(len(tail))
        what, bad = alter_client_reply(rng, tail[k])
        scripted = list(tail)
        scripted[k] = bad
        if rng.random() < 0.2:
            scripted = scripted[:k + 1]
        ops2 = ops[:j] + [("pending", scripted)] + ops[j:]
        ctx.count("client-altered/alteration/%s" % what.split(" ")[0])
        ctx.count("client-altered/reply-command/%s" % tail[k][:1].hex())

        def check(impl, case, what=what):
            for r in impl["results"]:
                if "(raise foreign" in r or "(raise hang" in r:
                    ctx.violation("public-call-raises-foreign:client:" + r.split(":")[-1].strip(")"),
                                  {"ops": case["ops"], "alteration": what, "path": case["path"]}, r[:200])
                    break
        run_case(ctx, model, lines, pend, "client-altered", focus, scn, path, auto, {}, rnd, ops2,
                 extra_case={"alteration": what, "altered_reply": k}, check=check)


def run_c17(ctx, model, focus="C17"):
    """connected histories crossing the 16-bit wrap: sequence counts on the wire.
    quick: the counter is advanced to just before the wrap and 600 messages of mixed kinds cross it;
    thorough: a full 140 000-message history from a fresh driver."""
    import pycomm3.cip_driver as cd
    rng = ctx.rng
    scn, _, _ = gen_base(rng, policy=(True, True, True), generic=(0, (), b"\x01"))
    assert model.ask("target.new " + scn) == "ok"
    shared = SharedNet(model, {})
    d = cd.CIPDriver("10.0.0.1/bp/0")
    d._sock = NetSocket(shared)
    try:
        d.open()
    except BaseException as e:  # noqa
        if isinstance(e, (KeyboardInterrupt, SystemExit)):
            raise
        # a healthy target, no faults: open() has no reason to fail (the frames it wrote are judged by the frame monitor)
        ctx.violation("open-fails-on-a-healthy-target:" + core.exn_class(e), {"history": "open on a fresh driver", "focus": focus,
                      "frames": [f.hex()[:120] for f in shared.frames][:4]}, repr(e)[:200])
        return
    skip = 0 if ctx.tier == "thorough" else 65535 * rng.choice([1, 2]) - rng.randint(100, 400)
    for _ in range(skip):
        next(d._sequence)
    n = 140000 if ctx.tier == "thorough" else 900
    for i in range(n):
        try:
            d.generic_message(service=1, class_code=0x70, instance=1, connected=True, name="g")
        except BaseException as e:  # noqa
            if isinstance(e, (KeyboardInterrupt, SystemExit)):
                raise
            # a healthy target answers every well-formed connected request: the call has no reason to raise
            ctx.violation("connected-message-raises-on-a-healthy-target:" + core.exn_class(e),
                          {"history": "open, counter advanced by %d, connected generic message number %d" % (skip, i), "focus": focus,
                           "last_frame": shared.frames[-1].hex()[:160] if shared.frames else None}, repr(e)[:200])
            break
        if i % 5000 == 0:
            model.ask("target.log")          # keep the target's event log short
    log = model.ask("target.log")
    try:
        d.close()
    except Exception:  # noqa
        pass
    frames = [f for f in shared.frames if f[:2] == b"\x70\x00"]
    if focus == "C11":
        # every connected frame of the history, also the ones around the wrap of the 16-bit counter: header + address item +
        # connected data item = sequence count followed by exactly the message-router request that was asked for
        want_mr = b"\x01\x02\x20\x70\x24\x01"
        ctx.case("wrap-history-frames", ("wrapframes", n, skip))
        ctx.count("frames-checked", len(frames))
        for i, f in enumerate(frames):
            why = None
            if len(f) != 24 + 20 + 2 + len(want_mr) or struct.unpack_from("<H", f, 2)[0] != len(f) - 24:
                why = "frame of %d bytes, expected %d" % (len(f), 24 + 20 + 2 + len(want_mr))
            elif struct.unpack_from("<HH", f, 40) != (0xB1, 2 + len(want_mr)):
                why = "connected data item header %s" % f[40:44].hex()
            elif f[46:] != want_mr:
                why = "connected data is not sequence count + request: %s" % f[44:].hex()
            if why:
                ctx.violation("malformed-frame:connected-data", {"ops": "open, counter advanced by %d, %d connected generic messages" % (skip, n),
                                                                 "frame_index": i, "frame": f.hex()}, why)
                break
        return
    seqs = [struct.unpack_from("<H", f, 44)[0] for f in frames]
    ctx.case("driver-seq", ("wrap", n, skip))
    ctx.evaluations += n
    case = {"ops": "open, counter advanced by %d, %d connected generic messages" % (skip, n)}
    for i in range(1, len(seqs)):
        if seqs[i] == seqs[i - 1]:
            ctx.violation("sequence-count-repeated", dict(case, index=i), "count %d on two consecutive connected messages" % seqs[i])
            break
    if "repeated on consecutive" in "".join(chr(int(c)) for m in __import__("re").finditer(r"\(violation \(s([0-9 ]*)\)\)", log) for c in m.group(1).split()):
        ctx.violation("target-saw-duplicate-sequence-count", case, "the reference target's duplicate detection fired")
    wrap_at = next((i for i, s in enumerate(seqs) if i and s < seqs[i - 1]), None)
    ctx.extra["driver_sequence_history"] = {"connected_messages": len(seqs), "first": seqs[:3],
                                            "around_wrap": seqs[max(0, (wrap_at or 2) - 2):(wrap_at or 2) + 3], "wrapped": wrap_at is not None}
    # the model's closed form predicts every count on the wire
    bad = [i for i, s in enumerate(seqs) if s != 1 + (skip + i) % 65535]
    if bad:
        ctx.mismatch("driver-seq", {"index": bad[0]}, str(seqs[bad[0]]), str(1 + (skip + bad[0]) % 65535))
    if wrap_at is None:
        ctx.notes.append("driver-level history did not cross the wrap (unexpected)")
