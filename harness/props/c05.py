"""C05 — uploaded tag list and type definitions mirror the controller."""
import copy

import core
import logixgen as lg
from props import logix as lx


def run(ctx, model):
    from props import logixdrv
    logixdrv.run_tagdb(ctx, model, "C05")
    # LogixDriver.open() as a whole == its Lean model (Logix/Open.lean): frames, outcome, tag database, info, target state
    logixdrv.run_open(ctx, model, "C05")
    logixdrv.run_reupload(ctx, model, "C05")
    logixdrv.run_reupload_pair(ctx, model, "C05")
    logixdrv.run_reconnect(ctx, model, "C05")
    from props import kernels
    kernels.run_filter(ctx, model, "C05")
    kernels.run_upload_parsers(ctx, model, "C05")
    rng = ctx.rng
    n = ctx.budget(60, 800)
    for i in range(n):
        p = lg.gen_project(rng)
        prog = rng.random() < 0.8
        case = {"seed": ctx.seed, "index": i, "project": lx.project_summary(p), "program_tags": prog}
        sess = lx.Session(model, p, conn_large=rng.random() < 0.7, init_program_tags=prog)
        ctx.case("upload", ("upload", i, repr(case["project"])))
        ctx.count("rev/%s" % ("<18" if p["rev"] < 18 else ("18-20" if p["rev"] < 21 else ">=21")))
        ctx.count("pages/%s" % p["pages"])
        ctx.count("tmpl-fragments/%s" % p["tmpl"])
        lx.check_upload(ctx, sess, case, prog)
        bad = [v for v in lx.violations_in_log(sess.log())]
        for v in bad:
            ctx.count("target-violation/" + v[:40])
        base_tags = copy.deepcopy({k: {kk: vv for kk, vv in t.items() if kk not in ("type_class", "data_type")} for k, t in sess.d.tags.items()}) \
            if sess.open_error is None else None
        sess.close()
        if i < 3:
            ctx.sample({"project": case["project"], "tags": sorted(sess.d.tags)[:12]})
        # independence of pagination / fragmentation: same project, other schedules -> same result
        if i % 3 == 0 and base_tags is not None:
            p2 = dict(p, pages=rng.choice([[1], [2, 1], [5], []]), tmpl=rng.choice([[1], [3], [9, 2], []]))
            sess2 = lx.Session(model, p2, conn_large=rng.random() < 0.5, init_program_tags=prog)
            ctx.case("upload-reschedule", ("resched", i, repr(p2["pages"]), repr(p2["tmpl"])))
            if sess2.open_error is not None:
                ctx.violation("open-failed-under-other-pagination", dict(case, pages=p2["pages"], tmpl=p2["tmpl"]), repr(sess2.open_error)[:200])
            else:
                t2 = {k: {kk: vv for kk, vv in t.items() if kk not in ("type_class", "data_type")} for k, t in sess2.d.tags.items()}
                if t2 != base_tags:
                    ctx.violation("upload-depends-on-pagination", dict(case, pages=p2["pages"], tmpl=p2["tmpl"]),
                                  "tag list differs between schedules %s/%s and %s/%s" % (p["pages"], p["tmpl"], p2["pages"], p2["tmpl"]))
            sess2.close()


def replay(ctx, model, data):
    c = core.Ctx("C05", data.get("tier", "quick"), data.get("seed", 0))
    run(c, model)
    return any(v["sig"] == data["sig"] for v in c.violations)
