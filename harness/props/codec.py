"""Shared correspondence streams and oracles for the codec properties C06 (round trip),
C07 (wire format), C08 (failure discipline)."""
from io import BytesIO

import core
import sx
import tygen
import refcodec


# ------------------------------------------------------------------ running the implementation

def impl_encode(d, T, v):
    """-> 'ok (b hex)' | 'err <class>'"""
    k = d[0]
    try:
        def call():
            if k == "dt":
                return T.encode(*v)
            if k == "stringn":
                return T.encode(v, d[1])
            if k == "stringi":
                return T.encode(*tygen.py_value(d, v))
            return T.encode(tygen.py_value(d, v))
        r = core.with_budget(5, call)
    except BaseException as e:  # noqa
        if isinstance(e, (KeyboardInterrupt, SystemExit)):
            raise
        return "err " + core.exn_class(e)
    if isinstance(r, (bytes, bytearray)):
        return "ok " + sx.hexb(r)
    return "err foreign:returns:" + type(r).__name__


def impl_decode(T, bs):
    """-> ('ok', value, rest_len) | ('err', class)"""
    stream = BytesIO(bs)
    try:
        v = core.with_budget(5, T.decode, stream)
    except BaseException as e:  # noqa
        if isinstance(e, (KeyboardInterrupt, SystemExit)):
            raise
        return ("err", core.exn_class(e))
    return ("ok", v, len(bs) - stream.tell())


def _scramble(v):
    """change a decoded value in place as a caller may (flip flags, overwrite items): lists and dicts are mutable API values"""
    if isinstance(v, list):
        for i in range(len(v)):
            if isinstance(v[i], bool):
                v[i] = not v[i]
            elif isinstance(v[i], int):
                v[i] = v[i] ^ 1
            elif isinstance(v[i], (list, dict)):
                _scramble(v[i])
            else:
                v[i] = None
        v.append("scrambled")
    elif isinstance(v, dict):
        for k in list(v):
            if isinstance(v[k], (list, dict)):
                _scramble(v[k])
            else:
                v[k] = None
        v["scrambled"] = True


def decode_purity(ctx, focus, d, T, bs, first):
    """decode is a function of the bytes: what a caller does to a returned value must not show up in a later decode
    of the same bytes (no shared mutable results)"""
    if first[0] != "ok" or not isinstance(first[1], (list, dict)):
        return
    snap = sx.canon(first[1])
    mine = impl_decode(T, bs)           # a value of our own to play the caller with (`first` is still compared with the model)
    if mine[0] != "ok":
        return
    _scramble(mine[1])
    again = impl_decode(T, bs)
    ctx.case("dec-purity", ("pure", tygen.to_sx(d), bs))
    if again[0] != "ok" or sx.canon(again[1]) != snap:
        _viol(ctx, focus, "C07" if focus != "C06" else "C06", "decode-depends-on-earlier-result-mutation:" + _shape(d),
              {"op": "dec-twice", "type": d, "bytes": bs.hex()},
              "first decode %s; after the caller changed that value in place, decoding the same bytes gave %r" % (
                  repr(snap)[:120], again[1] if again[0] == "ok" else again))


def model_decode_parse(line):
    if line.startswith("ok "):
        items = sx.parse(line[3:])
        return ("ok", sx.to_py(items[0]), int(items[1]))
    return ("err", line[4:])


def same_decode(a, b, ignore_rest=False):
    """ignore_rest: the stream position after an unbounded array that stopped on a partial trailing
    element is a side effect the functional model does not carry (DESIGN §8)"""
    if a[0] != b[0]:
        return False
    if a[0] == "err":
        return core.norm_err("err " + a[1]) == core.norm_err("err " + b[1])
    return sx.canon(a[1]) == sx.canon(b[1]) and (ignore_rest or a[2] == b[2])


def oracle_eq(a, b):
    """Python-level equality used by the round-trip oracle: dict order-insensitive, NaN == NaN, tuple/list distinct"""
    if isinstance(a, float) and isinstance(b, float):
        return sx.canon_float_bits(a) == sx.canon_float_bits(b)
    if isinstance(a, dict) and isinstance(b, dict):
        return a.keys() == b.keys() and all(oracle_eq(a[k], b[k]) for k in a)
    if isinstance(a, (list, tuple)) and type(a) is type(b):
        return len(a) == len(b) and all(oracle_eq(x, y) for x, y in zip(a, b))
    if type(a) is not type(b) and not (isinstance(a, (bytes, bytearray)) and isinstance(b, (bytes, bytearray))):
        return False
    return a == b


# ------------------------------------------------------------------ C08: which inputs must be rejected

def must_reject(d, v):
    """reason why `encode` must raise DataError for v (only the classes the property names), else None"""
    k = d[0]
    isint = isinstance(v, int)
    if k == "bool":
        return None
    if k == "int":
        if not isint:
            return "wrong python type"
        lo, hi = tygen.irange(d[1])
        return None if lo <= v <= hi else "out of range"
    if k in ("real", "lreal"):
        if not isinstance(v, (int, float)):
            return "wrong python type"
        if isinstance(v, float) and k == "real" and v == v and abs(v) != float("inf") and abs(v) > 3.4028235677973366e38:
            return "out of range"
        return None
    if k in ("str", "fstr", "stringn"):
        if not isinstance(v, str):
            return "wrong python type"
        if k == "fstr":
            v = v[:d[1]]     # FixedSizeString.encode truncates to the tag's capacity first (fix eb9da66)
        codec = {"latin1": "latin-1", "utf16": "utf-16-le"}[d[2]] if k == "str" else (
            "latin-1" if k == "fstr" else {1: "utf-8", 2: "utf-16-le", 4: "utf-32-le"}.get(d[1]))
        if codec is None:
            return "bad char size"
        try:
            v.encode(codec)
        except UnicodeEncodeError:
            return "unencodable character"
        lk = d[1] if k == "str" else (d[2] if k == "fstr" else "uint")
        lo, hi = tygen.irange(lk)
        if len(v) > hi:
            return "out of range"
        return None
    if k == "bits":
        try:
            n = len(v)
        except TypeError:
            return "wrong python type"
        return None if n == 8 * tygen.INTK[d[1]][0] else "wrong bit-string length"
    if k == "nbytes":
        if isinstance(v, (bytes, bytearray)):
            return None
        if isinstance(v, (list, tuple)) and all(isinstance(x, int) and 0 <= x < 256 for x in v):
            return None  # bytes(list of ints) is a legitimate spelling
        return "wrong python type"
    if k == "arr":
        try:
            n = len(v)
        except TypeError:
            return "wrong python type"
        if isinstance(v, dict):
            return None
        if d[2][0] == "bits":
            chunk = 8 * tygen.INTK[d[2][1]][0]
            if d[1][0] == "fixed" and n < d[1][1] * chunk:
                return "too few bits for a fixed array of bit strings"
            return None
        cnt = n
        if d[1][0] == "fixed":
            if n < d[1][1]:
                return "too few elements for a fixed array"
            cnt = d[1][1]
        for i in range(cnt):
            r = must_reject(d[2], v[i])
            if r:
                return r
        return None
    if k == "struct":
        if isinstance(v, dict):
            for (mn, md, inst) in d[1]:
                key = mn if inst else None
                if key not in v:
                    return "wrong container shape"
                r = must_reject(md, v[key])
                if r:
                    return r
            return None
        if isinstance(v, (list, tuple)):
            for (mn, md, inst), x in zip(d[1], v):
                r = must_reject(md, x)
                if r:
                    return r
            return None
        if isinstance(v, (str, bytes)):
            return None  # iterable: not one of the named classes
        return "wrong python type"
    if k == "stag":
        if not isinstance(v, dict):
            return "wrong python type"
        for (mn, md, off) in d[2]:
            if mn in d[4]:
                continue
            if mn not in v:
                return "wrong container shape"
            r = must_reject(md, v[mn])
            if r:
                return r
        for (n, o, b) in d[3]:
            if n not in v:
                return "wrong container shape"
        return None
    if k == "dt":
        for x, kk in zip(v, ("udint", "uint")):
            r = must_reject(("int", kk), x)
            if r:
                return r
        return None
    if k == "ip":
        if isinstance(v, str):
            parts = v.split(".")
            ok = len(parts) == 4 and all(p.isascii() and p.isdigit() and len(p) <= 3 and int(p) <= 255 and
                                         (len(p) == 1 or p[0] != "0") for p in parts)
            return None if ok else "out of range"
        return None
    return None


def leaf_kinds(d):
    return d[0] in ("bool", "int", "real", "lreal", "bits", "ip")


# ------------------------------------------------------------------ the streams

def run(ctx, model, focus):
    """focus in {'C06','C07','C08'} decides budgets and which oracle raises violations"""
    rng = ctx.rng
    n_types = ctx.budget(600, 12000)
    vals_per = ctx.budget(6, 12)
    depth_max = ctx.budget(3, 5)
    lines, pending = [], []   # model requests and what to do with each answer

    def ask(line, cb):
        lines.append(line)
        pending.append(cb)

    # ---- exhaustive 1/2-byte leaf domains (both directions)
    small = [d for d in tygen.ELEMENTARY if tygen.fixed_width(d) in (1, 2) and d[0] in ("int", "bool", "bits")]
    step16 = 1 if ctx.tier == "thorough" or focus == "C07" else 7
    for d in small:
        T = tygen.to_py(d)
        w = tygen.fixed_width(d)
        tsx = tygen.to_sx(d)
        for n in range(0, 256 ** w, 1 if w == 1 else step16):
            bs = n.to_bytes(w, "little")
            r = impl_decode(T, bs)
            ctx.case("dec-exhaustive", (d[:2], n))
            ctx.count("dec-exhaustive/" + tygen.show(d))
            ask("codec.dec %s %s" % (tsx, sx.hexb(bs)), _cb_dec(ctx, "dec-exhaustive", d, bs, r))
            # oracles on the implementation
            if r[0] == "ok":
                ref = refcodec.ref_decode_leaf(d, bs)
                if not oracle_eq(ref, r[1]) or r[2] != 0:
                    _viol(ctx, focus, "C07", "decode-differs-from-reference:" + tygen.show(d),
                          {"op": "dec", "type": d, "bytes": bs.hex()}, "reference %r, library %r" % (ref, r[1]))
                e = impl_encode(d, T, r[1])
                ctx.case("enc-exhaustive", (d[:2], n, "e"))
                ask("codec.enc %s %s" % (tsx, sx.val(r[1])), _cb_enc(ctx, "enc-exhaustive", d, r[1], e))
                want = "ok " + sx.hexb(bs)
                if d[0] == "bool":
                    want = "ok " + sx.hexb(b"\xff" if n else b"\x00")
                if e != want:
                    _viol(ctx, focus, "C06" if d[0] != "bool" else "C07", "roundtrip-bytes:" + tygen.show(d),
                          {"op": "dec-enc", "type": d, "bytes": bs.hex()}, "encode(decode(b)) = %s" % e)
                if w == 1 or n % 16 == 0:
                    decode_purity(ctx, focus, d, T, bs, r)
            else:
                _viol(ctx, focus, "C08", "decode-rejects-full-width:" + tygen.show(d),
                      {"op": "dec", "type": d, "bytes": bs.hex()}, "raised %s" % r[1])
    if step16 == 1:
        ctx.exhaustive = True
    ctx.extra["exhaustive_subdomains"] = "all byte patterns of every 1-byte leaf type; 2-byte leaf types with step %d" % step16

    # ---- structured random types and values
    for ti in range(n_types):
        d = tygen.gen_type(rng, rng.randint(0, depth_max))
        try:
            T = tygen.to_py(d)
        except Exception as e:  # noqa
            ctx.count("type-construction-failed")
            continue
        tsx = tygen.to_sx(d)
        ctx.count("type/" + d[0])
        tail_ok = not tygen.has_kind(d, ("nbytes-1",)) and not _consumes_rest(d)
        for vi in range(vals_per):
            tygen.FLAGS.clear()
            c = tygen.gen_valid(rng, d)
            inconsistent_bits = "inconsistent-bits" in tygen.FLAGS
            v = tygen.variant(rng, d, c)
            overlong_bits = "overlong-bits" in tygen.FLAGS
            exp = tygen.expected(d, c)
            key = (tsx, repr(v))
            if d[0] == "dt":
                pass
            e = impl_encode(d, T, v)
            ctx.case("enc-valid", key)
            try:
                vsx = sx.val(v if d[0] != "stringi" else list(v))
            except sx.Unrenderable:
                continue
            ask("codec.enc %s %s" % (tsx, vsx), _cb_enc(ctx, "enc-valid", d, v, e))
            if ti < 6 and vi == 0:
                ctx.sample({"type": tygen.show(d), "value": repr(v)[:120], "encode": e[:80]})
            # C07: agreement with the reference codec
            try:
                ref = refcodec.ref_encode(d, c)
            except Exception as ex:  # noqa
                ref = None
            if d[1][0] == "pref" if d[0] == "arr" else False:
                pass
            if overlong_bits and ref is not None and e != "ok " + sx.hexb(ref):
                _viol(ctx, focus, "C06", "overlong-bit-array-not-truncated", {"op": "enc", "type": d, "value": v},
                      "fixed array of bit strings given one element too many: expected %s, library %s" % (ref.hex(), e))
                continue
            if ref is not None and e != "ok " + sx.hexb(ref):
                _viol(ctx, focus, "C07", "encode-differs-from-reference:" + _shape(d),
                      {"op": "enc", "type": d, "value": v}, "reference %s, library %s" % (ref.hex(), e))
            if not e.startswith("ok "):
                _viol(ctx, focus, "C06", "valid-value-rejected:" + _shape(d), {"op": "enc", "type": d, "value": v}, e)
                continue
            enc = bytes.fromhex(e[6:-1]) if len(e) > 7 else b""
            # struct dict vs positional: identical bytes
            if d[0] == "struct" and isinstance(v, dict):
                e2 = impl_encode(d, T, [v[mn] for (mn, md, inst) in d[1]])
                if e2 != e:
                    _viol(ctx, focus, "C06", "struct-dict-vs-seq", {"op": "enc2", "type": d, "value": c}, "%s vs %s" % (e, e2))
            # decode (with a tail when the type does not consume the rest)
            tail = bytes(rng.getrandbits(8) for _ in range(rng.choice([0, 0, 1, 3]))) if tail_ok else b""
            pre = b""
            if d[0] == "arr" and d[1][0] == "pref":
                # documented contract: the length prefix is read on decode but not written on encode
                n_el = len(c) if d[2][0] != "bits" else len(c) // (8 * tygen.INTK[d[2][1]][0])
                lo, hi = tygen.irange(d[1][1])
                pre = n_el.to_bytes(tygen.INTK[d[1][1]][0], "little")
            buf = pre + enc + tail
            r = impl_decode(T, buf)
            ctx.case("dec-valid", (tsx, buf))
            ask("codec.dec %s %s" % (tsx, sx.hexb(buf)), _cb_dec(ctx, "dec-valid", d, buf, r))
            if _nested_pref(d):
                continue  # nested length-prefixed arrays cannot round-trip by contract (prefix not written)
            if inconsistent_bits:
                continue  # host integer and its aliased BOOL members disagree: encode lets the BOOLs win (C07), no fixed point
            if r[0] != "ok":
                _viol(ctx, focus, "C06", "roundtrip-decode-fails:" + _shape(d),
                      {"op": "rt", "type": d, "value": v, "buf": buf.hex()}, "decode raised %s" % r[1])
            else:
                if not oracle_eq(exp, r[1]):
                    _viol(ctx, focus, "C06", "roundtrip-value:" + _shape(d),
                          {"op": "rt", "type": d, "value": v, "buf": buf.hex()},
                          "expected %r got %r" % (exp, r[1]))
                elif r[2] != len(tail):
                    _viol(ctx, focus, "C06", "roundtrip-consumed:" + _shape(d),
                          {"op": "rt", "type": d, "value": v, "buf": buf.hex()},
                          "left %d bytes, expected %d" % (r[2], len(tail)))
            if vi < 2:
                decode_purity(ctx, focus, d, T, buf, r)
            # C08: truncations
            if focus == "C08" or vi == 0:
                _truncations(ctx, focus, ask, d, T, tsx, pre + enc, rng)
        # invalid values
        for vi in range(vals_per // 2 if focus != "C08" else vals_per):
            v = tygen.gen_invalid(rng, d)
            if d[0] == "dt" and not (isinstance(v, (tuple, list)) and len(v) == 2):
                continue
            if d[0] == "stringi" and not isinstance(v, (list, tuple)):
                v = [v]
            try:
                vsx = sx.val(v)
            except sx.Unrenderable:
                continue
            e = impl_encode(d, T, v)
            ctx.case("enc-invalid", (tsx, repr(v)))
            ctx.count("enc-invalid/" + e.split(" ")[1 if e.startswith("err") else 0][:12])
            ask("codec.enc %s %s" % (tsx, vsx), _cb_enc(ctx, "enc-invalid", d, v, e))
            if e.startswith("err foreign") or e == "err hang":
                _viol(ctx, focus, "C08", "encode-foreign:" + _shape(d) + ":" + e[4:],
                      {"op": "enc", "type": d, "value": v}, e)
            elif e.startswith("ok"):
                why = must_reject(d, v)
                if why:
                    _viol(ctx, focus, "C08", "encode-accepts:" + why + ":" + _shape(d),
                          {"op": "enc", "type": d, "value": v}, "returned %s" % e)
        # random bytes
        for _ in range(2):
            bs = bytes(rng.getrandbits(8) for _ in range(rng.choice([0, 1, 2, 3, 5, 8, 13, 40])))
            r = impl_decode(T, bs)
            ctx.case("dec-random", (tsx, bs))
            ask("codec.dec %s %s" % (tsx, sx.hexb(bs)), _cb_dec(ctx, "dec-random", d, bs, r))
            _check_decode_class(ctx, focus, d, bs, r)

    # ---- unbounded array over a zero-width element type (termination clause of C08)
    # ... and over element types whose width depends on the data, so that they are zero-width only once the buffer is
    # used up (an unbounded array inside an unbounded array, directly or as the first / only member of a structure)
    usint = ("int", "usint", "USINT")
    inner = ("arr", ("all",), usint)
    for d in [("arr", ("all",), ("struct", [])), ("arr", ("all",), ("arr", ("fixed", 0), ("int", "sint", "SINT"))),
              ("arr", ("all",), inner), ("arr", ("all",), ("arr", ("all",), inner)),
              ("arr", ("all",), ("struct", [("body", inner, True)])),
              ("arr", ("all",), ("struct", [("n", usint, True), ("body", inner, True)])),
              ("arr", ("all",), ("arr", ("fixed", 2), ("struct", []))),
              ("arr", ("all",), ("struct", [("e", ("struct", []), True)])),
              ("struct", [("a", usint, True), ("rest", ("arr", ("all",), inner), True)])]:
        T = tygen.to_py(d)
        for bs in (b"", b"\x01\x02", b"\x01\x02\x03\x04\x05"):
            stream = BytesIO(bs)
            try:
                core.with_budget(1.5, T.decode, stream)
                r = "ok"
            except BaseException as e:  # noqa
                r = core.exn_class(e)
            ctx.case("dec-zero-width", (tygen.show(d), bs))
            ask("codec.dec %s %s" % (tygen.to_sx(d), sx.hexb(bs)),
                _cb_dec(ctx, "dec-zero-width", d, bs, ("err", r) if r != "ok" else impl_decode(T, bs)))
            if r == "hang":
                _viol(ctx, focus, "C08", "unbounded-array-of-zero-width-elements-hangs",
                      {"op": "dec", "type": d, "bytes": bs.hex()}, "decode did not terminate within 1.5 s")

    # ---- ask the model everything in one batch
    outs = model.batch(lines)
    for cb, out in zip(pending, outs):
        cb(out)


def _consumes_rest(d):
    if d[0] == "nbytes" and d[1] < 0:
        return True
    if d[0] == "arr":
        return d[1][0] == "all" or _consumes_rest(d[2])
    if d[0] == "struct":
        return any(_consumes_rest(md) for (_, md, _) in d[1])
    return False


def _nested_pref(d, top=True):
    if d[0] == "arr":
        if d[1][0] == "pref" and not top:
            return True
        return _nested_pref(d[2], False)
    if d[0] == "struct":
        return any(_nested_pref(md, False) for (_, md, _) in d[1])
    if d[0] == "stag":
        return any(_nested_pref(md, False) for (_, md, _) in d[2])
    return False


def _shape(d, depth=0):
    """coarse type shape used in violation signatures (so one defect = one signature)"""
    k = d[0]
    if k in ("int", "bits"):
        return k
    if k == "str":
        return d[3]
    if k == "arr":
        return "arr-%s(%s)" % (d[1][0], _shape(d[2], depth + 1) if depth == 0 else "..")
    if k == "struct":
        return "struct"
    if k == "stag":
        return "stag"
    if k == "nbytes":
        return "nbytes" + ("-1" if d[1] < 0 else ("0" if d[1] == 0 else ""))
    if k == "stringn":
        return "stringn"
    return k


def _viol(ctx, focus, owner, sig, inp, detail):
    """record a violation only in the check that owns the clause (others count it as an observation)"""
    if owner == focus:
        ctx.violation(sig, _jsonable(inp), detail)
    else:
        ctx.count("observed-for-%s/%s" % (owner, sig.split(":")[0]))


def _jsonable(x):
    if isinstance(x, dict):
        return {str(k): _jsonable(v) for k, v in x.items()}
    if isinstance(x, (list, tuple)):
        return [_jsonable(v) for v in x]
    if isinstance(x, (bytes, bytearray)):
        return {"__bytes__": bytes(x).hex()}
    if isinstance(x, float):
        return {"__float__": x.hex()}
    return x


def _unjson(x):
    if isinstance(x, dict):
        if "__bytes__" in x:
            return bytes.fromhex(x["__bytes__"])
        if "__float__" in x:
            return float.fromhex(x["__float__"])
        return {k: _unjson(v) for k, v in x.items()}
    if isinstance(x, list):
        return [_unjson(v) for v in x]
    return x


def _cb_enc(ctx, stream, d, v, impl):
    def cb(out):
        if out.startswith("unmodelled") or out.startswith("bad"):
            ctx.unmodelled(stream)
            ctx.count("unmodelled/" + out[:30])
            return
        if core.norm_err(out) != core.norm_err(impl):
            ctx.mismatch(stream, {"type": tygen.show(d), "value": repr(v)[:300]}, impl, out)
    return cb


def _cb_dec(ctx, stream, d, bs, impl):
    def cb(out):
        if out.startswith("unmodelled") or out.startswith("bad"):
            ctx.unmodelled(stream)
            ctx.count("unmodelled/" + out[:30])
            return
        m = model_decode_parse(out)
        if not same_decode(impl, m, ignore_rest=_consumes_rest(d)):
            ctx.mismatch(stream, {"type": tygen.show(d), "bytes": bs.hex()[:300]},
                         repr(impl)[:300], out[:300])
    return cb


def _check_decode_class(ctx, focus, d, bs, r):
    """C08 clauses that hold for arbitrary bytes"""
    if r[0] == "err":
        if r[1] not in ("data", "empty"):
            _viol(ctx, focus, "C08", "decode-foreign:" + _shape(d) + ":" + r[1].split(":")[0],
                  {"op": "dec", "type": d, "bytes": bs.hex()}, "raised %s" % r[1])
        elif r[1] == "empty" and leaf_kinds(d) and len(bs) > 0:
            _viol(ctx, focus, "C08", "buffer-empty-with-bytes:" + _shape(d),
                  {"op": "dec", "type": d, "bytes": bs.hex()}, "BufferEmptyError although bytes remain")
    else:
        w = tygen.fixed_width(d)
        if w is not None and not _consumes_rest(d) and len(bs) < w and d[0] != "stag":
            _viol(ctx, focus, "C08", "value-from-short-buffer:" + _shape(d),
                  {"op": "dec", "type": d, "bytes": bs.hex()}, "decoded %r from %d of %d bytes" % (r[1], len(bs), w))


def _truncations(ctx, focus, ask, d, T, tsx, enc, rng):
    if _consumes_rest(d):
        # whole-number-of-elements clause
        return
    n = len(enc)
    cuts = range(n) if n <= 24 else sorted(set([0, 1, 2, 3, n - 1, n - 2] + [rng.randrange(n) for _ in range(8)]))
    for cut in cuts:
        p = enc[:cut]
        r = impl_decode(T, p)
        ctx.case("dec-truncated", (tsx, p))
        ask("codec.dec %s %s" % (tsx, sx.hexb(p)), _cb_dec(ctx, "dec-truncated", d, p, r))
        ctx.count("dec-truncated/" + (r[1].split(":")[0] if r[0] == "err" else "ok"))
        _check_decode_class(ctx, focus, d, p, r)
        if r[0] == "ok":
            # a strict prefix of a valid encoding decoded without error
            if d[0] == "stag":
                sig = "truncated-decodes:stag"
            else:
                sig = "truncated-decodes:" + _shape(d)
            _viol(ctx, focus, "C08", sig, {"op": "dec", "type": d, "bytes": p.hex(), "full": enc.hex()},
                  "prefix of length %d of a %d-byte encoding decoded to %r" % (cut, n, r[1]))


def replay(ctx, model, data, focus):
    """re-run one recorded input on the implementation; True when it still fails"""
    inp = _unjson(data["input"])
    d = _detuple(inp["type"])
    T = tygen.to_py(d)
    op = inp["op"]
    before = len(ctx.violations)

    class Sink:
        pass
    if op in ("enc", "enc2"):
        v = inp["value"]
        if isinstance(v, list) and d[0] in ("dt",):
            v = tuple(v)
        e = impl_encode(d, T, v)
        print("encode ->", e)
        why = must_reject(d, v)
        if e.startswith("err foreign") or e == "err hang" or (e.startswith("ok") and why):
            return True
        if data["sig"].startswith("valid-value-rejected") and not e.startswith("ok"):
            return True
        if data["sig"].startswith("encode-differs"):
            print("(reference comparison: see detail)")
            return True
        return False
    if op in ("dec", "rt", "dec-enc"):
        bs = bytes.fromhex(inp.get("bytes") or inp.get("buf"))
        r = impl_decode(T, bs)
        print("decode ->", r)
        _check_decode_class(ctx, focus, d, bs, r)
        if len(ctx.violations) > before:
            return True
        sig = data["sig"]
        if sig.startswith("truncated-decodes") and r[0] == "ok":
            return True
        if sig.startswith("roundtrip") and (r[0] != "ok"):
            return True
        if sig.startswith("roundtrip-value") or sig.startswith("roundtrip-consumed"):
            return True
        return False
    return False


def _detuple(x):
    """JSON turned the descriptor's tuples into lists: restore"""
    if isinstance(x, list):
        if x and isinstance(x[0], str) and x[0] in ("bool", "int", "real", "lreal", "dt", "str", "stringn", "stringi", "stringi1",
                                                     "bits", "nbytes", "arr", "struct", "fstr", "stag", "ip",
                                                     "fixed", "pref", "all"):
            if x[0] == "struct":
                return ("struct", [(m[0], _detuple(m[1]), m[2]) for m in x[1]])
            if x[0] == "stag":
                return ("stag", x[1], [(m[0], _detuple(m[1]), m[2]) for m in x[2]], [tuple(b) for b in x[3]], list(x[4]))
            return tuple(_detuple(y) for y in x)
        return [_detuple(y) for y in x]
    return x
