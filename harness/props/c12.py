"""C12 — reply frames survive any TCP segmentation (Socket.receive / Socket.send)."""
import itertools
import socket as pysocket

import core
import sx


class FakeSock:
    """scripted stand-in for the OS socket"""

    def __init__(self, script=None, accepts=None):
        self.script = list(script or [])   # ('c', bytes) | 'closed' | 'error'
        self.accepts = list(accepts or [])  # int | 'x'
        self.recv_calls = 0
        self.sent = b""

    def settimeout(self, t):
        pass

    def recv(self, n):
        self.recv_calls += 1
        if self.recv_calls > 5000:
            raise core.Hang()
        if not self.script:
            raise pysocket.timeout("timed out")
        ev = self.script[0]
        if ev == "error":
            self.script.pop(0)
            raise pysocket.error("boom")
        if ev == "closed":
            return b""
        data = ev[1]
        if len(data) <= n:
            self.script.pop(0)
            return data
        self.script[0] = ("c", data[n:])
        return data[:n]

    def send(self, data):
        if not self.accepts:
            self.sent += bytes(data)
            return len(data)
        a = self.accepts.pop(0)
        if a == "x":
            raise pysocket.error("boom")
        k = min(a, len(data))
        self.sent += bytes(data[:k])
        return k

    def close(self):
        pass


def make_socket(fake):
    from pycomm3.socket_ import Socket
    s = Socket.__new__(Socket)
    s.sock = fake
    return s


def impl_receive(script):
    fake = FakeSock(script=script)
    s = make_socket(fake)
    try:
        r = core.with_budget(5, s.receive)
    except BaseException as e:  # noqa
        if isinstance(e, (KeyboardInterrupt, SystemExit)):
            raise
        return "err " + core.exn_class(e), fake.recv_calls
    return "ok " + sx.hexb(r), fake.recv_calls


def impl_send(accepts, msg):
    fake = FakeSock(accepts=accepts)
    s = make_socket(fake)
    try:
        n = core.with_budget(5, s.send, msg)
    except BaseException as e:  # noqa
        if isinstance(e, (KeyboardInterrupt, SystemExit)):
            raise
        return "err " + core.exn_class(e), fake.sent
    return "ok %s %d" % (sx.hexb(fake.sent), n), fake.sent


def script_sx(script):
    return "(" + " ".join(ev if isinstance(ev, str) else ("(c %s)" % ev[1].hex() if ev[1] else "(c)") for ev in script) + ")"


def frame(rng, body_len):
    import struct
    body = bytes(rng.getrandbits(8) for _ in range(body_len))
    hdr = struct.pack("<HHII8sI", rng.choice([0x65, 0x6F, 0x70, 0x63]), body_len, rng.getrandbits(32), 0,
                      bytes(rng.getrandbits(8) for _ in range(8)), 0)
    return hdr + body


def compositions(n, max_parts):
    """all ways to write n as an ordered sum of 1..max_parts positive parts"""
    for k in range(1, min(n, max_parts) + 1):
        for cuts in itertools.combinations(range(1, n), k - 1):
            pts = (0,) + cuts + (n,)
            yield [pts[i + 1] - pts[i] for i in range(k)]


def split(f, parts):
    out, pos = [], 0
    for p in parts:
        out.append(("c", f[pos:pos + p]))
        pos += p
    return out


def run(ctx, model):
    rng = ctx.rng
    lines, pend = [], []

    def recv_case(stream, f, script, expect):
        """expect: 'frame' | 'comm'"""
        r, calls = impl_receive(script)
        ctx.case(stream, (stream, script_sx(script)))
        ctx.count(stream + "/" + r.split(" ")[0 if r.startswith("ok") else 1])
        lines.append("sock.recv " + script_sx(script))

        def cb(out, r=r, calls=calls, script=script):
            want = r + " %d" % calls
            if core.norm_err(out.rsplit(" ", 1)[0]) != core.norm_err(r) or (r.startswith("ok") and out != want):
                ctx.mismatch(stream, {"script": script_sx(script)[:400]}, want[:200], out[:200])
        pend.append(cb)
        rep = {"op": "recv", "script": [ev if isinstance(ev, str) else ["c", ev[1].hex()] for ev in script],
               "frame": f.hex(), "expect": expect}
        if expect == "frame":
            if r != "ok " + sx.hexb(f):
                ctx.violation("receive-wrong-result:" + r.split(" ")[0 if r.startswith("ok") else 1].split(":")[0], rep,
                              "frame of %d bytes in %d chunks -> %s" % (len(f), len(script), r[:80]))
            elif calls > len(f):
                ctx.violation("receive-too-many-recv-calls", rep, "%d recv calls for %d bytes" % (calls, len(f)))
        else:
            if r != "err comm":
                ctx.violation("receive-incomplete-frame:" + r.split(" ")[0 if r.startswith("ok") else 1].split(":")[0], rep,
                              "peer stopped after %d of %d bytes -> %s" % (
                                  sum(len(e[1]) for e in script if not isinstance(e, str)), len(f), r[:80]))

    # ---- exhaustive: all compositions of short frames
    max_body = ctx.budget(2, 6)
    max_parts = ctx.budget(4, 5)
    for body in range(0, max_body + 1):
        f = frame(rng, body)
        for parts in compositions(len(f), max_parts):
            recv_case("recv-all-compositions", f, split(f, parts), "frame")
    ctx.extra["exhaustive_subdomains"] = "every composition of frames with body 0..%d into <=%d chunks; every first-chunk length; every fault position of short frames" % (max_body, max_parts)
    # ---- every first-chunk length, 1-byte tails, boundaries around 256
    for body in [0, 1, 7, 230, 231, 232, 233, 256, 488, 489, 600]:
        f = frame(rng, body)
        for first in range(1, min(len(f), 40) + 1):
            recv_case("recv-first-chunk", f, split(f, [first, len(f) - first] if first < len(f) else [first]), "frame")
        for b in (255, 256, 257, 511, 512, 513):
            if b < len(f):
                recv_case("recv-first-chunk", f, split(f, [b, len(f) - b]), "frame")
    f = frame(rng, 3)
    recv_case("recv-first-chunk", f, split(f, [1] * len(f)), "frame")
    # ---- random frames and splits, incl. big ones
    n = ctx.budget(300, 3000)
    for i in range(n):
        body = rng.choice([0, 1, 2, 10, 100, 232, 233, 500, 4000]) if rng.random() < 0.7 else rng.randint(0, ctx.budget(8000, 65511))
        if i == 0:
            body = 65511
        f = frame(rng, body)
        parts, left = [], len(f)
        while left:
            p = min(left, rng.choice([1, 2, 3, 4, 23, 24, 25, 255, 256, 257, 1000, left]))
            parts.append(p)
            left -= p
        recv_case("recv-random", f, split(f, parts), "frame")
    # ---- faults: the peer closes / errors / goes silent after any number of bytes
    for body in range(0, ctx.budget(3, 8)):
        f = frame(rng, body)
        for cut in range(0, len(f)):
            for fault in ("closed", "error", None):
                pre = f[:cut]
                parts = []
                if cut:
                    k = rng.choice([1, 2, 3])
                    cuts = sorted(set(rng.randrange(1, cut) for _ in range(k - 1))) if cut > 1 else []
                    pts = [0] + cuts + [cut]
                    parts = [pts[j + 1] - pts[j] for j in range(len(pts) - 1)]
                script = split(pre, parts) + ([fault] if fault else [])
                recv_case("recv-fault", f, script, "comm")
    for _ in range(ctx.budget(50, 500)):
        f = frame(rng, rng.choice([0, 5, 100, 300, 1000]))
        cut = rng.randrange(0, len(f))
        script = split(f[:cut], [cut] if cut else []) + [rng.choice(["closed", "error"])]
        recv_case("recv-fault", f, script, "comm")

    # ---- send
    # the largest frames the encapsulation header can describe (24 + 65511 = 65535 bytes) and their neighbours, whole and
    # under partial sends: every byte must reach the socket
    edge = [(n, acc) for n in (65535, 65534, 65533, 24 + 65511 - 1, 24 + 4000, 65536)
            for acc in ([], [1, 1], [1460] * 3, [4096] * 20, [65534], [65535], [30000, 30000])]
    for i in range(ctx.budget(400, 4000) + len(edge)):
        msg = bytes(rng.getrandbits(8) for _ in range(rng.choice([0, 1, 2, 5, 24, 100, 600, 4096])))
        r = rng.random()
        if i < len(edge):
            msg = bytes(rng.getrandbits(8) for _ in range(64)) * (edge[i][0] // 64 + 1)
            msg = msg[:edge[i][0]]
            accepts = list(edge[i][1])
            ctx.count("send/edge-size/%d" % len(msg))
        elif r < 0.6:
            accepts = [rng.choice([1, 1, 2, 3, 7, 100, 5000]) for _ in range(rng.randint(0, 12))]
        elif r < 0.8:
            accepts = [rng.choice([1, 2, 5]) for _ in range(rng.randint(0, 4))] + [0]
        else:
            accepts = [rng.choice([1, 2, 5]) for _ in range(rng.randint(0, 4))] + ["x"]
        out, sent = impl_send(accepts, msg)
        ctx.case("send", ("send", tuple(accepts), msg))
        ctx.count("send/" + out.split(" ")[0 if out.startswith("ok") else 1])
        lines.append("sock.send (%s) %s" % (" ".join(str(a) for a in accepts), sx.hexb(msg)))

        def cb(o, out=out, accepts=accepts, msg=msg):
            if core.norm_err(o) != core.norm_err(out):
                ctx.mismatch("send", {"accepts": accepts, "msg": msg.hex()[:100]}, out[:200], o[:200])
        pend.append(cb)
        rep = {"op": "send", "accepts": accepts, "msg": msg.hex()}
        # oracle
        consumed, broken = 0, False
        for a in accepts:
            if consumed >= len(msg):
                break
            if a == "x" or a == 0:
                broken = True
                break
            consumed += min(a, len(msg) - consumed)
        if broken:
            if out != "err comm":
                ctx.violation("send-broken-not-commerror", rep, out[:100])
        else:
            if out != "ok %s %d" % (sx.hexb(msg), len(msg)):
                ctx.violation("send-bytes-not-delivered-in-order", rep, out[:100])
    if len(ctx.samples) < 3:
        ctx.sample({"stream": "recv", "example_script": lines[5][:200]})
        ctx.sample({"stream": "send", "example": lines[-1][:200]})
    outs = model.batch(lines)
    for cb, o in zip(pend, outs):
        cb(o)


def replay(ctx, model, data):
    inp = data["input"]
    if inp["op"] == "recv":
        script = [ev if isinstance(ev, str) else ("c", bytes.fromhex(ev[1])) for ev in inp["script"]]
        r, calls = impl_receive(script)
        print("receive ->", r[:120], "recv calls:", calls)
        f = bytes.fromhex(inp["frame"])
        if inp["expect"] == "frame":
            return r != "ok " + sx.hexb(f) or calls > len(f)
        return r != "err comm"
    accepts, msg = inp["accepts"], bytes.fromhex(inp["msg"])
    out, sent = impl_send(accepts, msg)
    print("send ->", out[:120])
    return data["sig"].startswith("send")
