"""C11 — every emitted frame is a well-formed EtherNet/IP encapsulation message."""
import struct

import core
import sx
from props import transcripts as tr


def run(ctx, model):
    from pycomm3.packets import (RegisterSessionRequestPacket, UnRegisterSessionRequestPacket, ListIdentityRequestPacket,
                                 GenericConnectedRequestPacket, GenericUnconnectedRequestPacket)
    rng = ctx.rng
    # ---- builder level: arbitrary handles / ids / payload lengths
    lines, pend = [], []
    lens = list(range(0, 40)) + [498, 499, 500, 501, 3998, 3999, 4000, 4001, 65000, 65499, 65500, 65519, 65520, 65535, 65536, 70000]
    for i in range(ctx.budget(1200, 12000)):
        kind = rng.choice(["register", "unregister", "listidentity", "rr", "unit", "unit", "rr", "rr-raw", "unit-raw"])
        session = rng.choice([0, 1, 0x1001, 0xFFFFFFFF, rng.getrandbits(32)])
        context = bytes(rng.getrandbits(8) for _ in range(8))
        option = rng.choice([0, 0, 1, 0xFFFFFFFF])
        cid = bytes(rng.getrandbits(8) for _ in range(4)) if rng.random() < 0.9 else None
        seq = rng.choice([1, 2, 255, 256, 65535, rng.randint(1, 65535)])
        n = rng.choice(lens)
        data = bytes(rng.getrandbits(8) for _ in range(min(n, 300))) + b"\x00" * max(0, n - 300)
        try:
            if kind == "register":
                req = RegisterSessionRequestPacket(b"\x01\x00")
                msg = b"\x01\x00\x00\x00"
            elif kind == "unregister":
                req, msg = UnRegisterSessionRequestPacket(), b""
            elif kind == "listidentity":
                req, msg = ListIdentityRequestPacket(), b""
            elif kind == "rr-raw":
                # the plain SendRRData / SendUnitData packets with whatever the caller adds — also nothing at all
                from pycomm3.packets import SendRRDataRequestPacket
                req = SendRRDataRequestPacket()
                if n % 3:
                    req.add(data)
                else:
                    data = b""
                msg = data
            elif kind == "unit-raw":
                from pycomm3.packets import SendUnitDataRequestPacket
                req = SendUnitDataRequestPacket(seq)
                if n % 3:
                    req.add(data)
                else:
                    data = b""
                msg = data
            elif kind == "rr":
                req = GenericUnconnectedRequestPacket(service=0x0E, class_code=1, instance=1, request_data=data)
                msg = b"\x0e\x02\x20\x01\x24\x01" + data
            else:
                req = GenericConnectedRequestPacket(sequence=seq, service=0x0E, class_code=1, instance=1, request_data=data)
                msg = b"\x0e\x02\x20\x01\x24\x01" + data
            f = req.build_request(cid, session, context, option)
            impl = "ok " + sx.hexb(f)
        except BaseException as e:  # noqa
            f = None
            impl = "err " + core.exn_class(e)
        ctx.case("builders", (kind, session, option, cid, seq, n))
        ctx.count("builders/" + kind)
        lines.append("encap.build %s %d %s %d %s %d %s" % (kind.split("-")[0], session, sx.hexb(context), option, sx.hexb(cid) if cid is not None else "N", seq, sx.hexb(msg)))
        pend.append((kind, impl))
        if f is not None:
            granted = {session}
            cids = {struct.unpack("<I", cid)[0]} if cid else set()
            why = tr.check_frame(f if option == 0 else f[:20] + b"\0\0\0\0" + f[24:], granted | {0}, cids, mr_shape=not kind.endswith("-raw"))
            if kind == "register" and session != 0:
                why = None   # a second registration with a live handle never happens (open() registers once per session)
            if kind in ("unit", "unit-raw") and cid is None:
                why = None   # the driver never sends connected data before a Forward Open (C10)
            if why:
                ctx.violation("builder-malformed-frame:" + why.split(" ")[0], {"kind": kind, "session": session, "cid": cid and cid.hex(), "len": n}, why)
    outs = model.batch(lines)
    for (kind, impl), out in zip(pend, outs):
        mo = out.rsplit(" frame-", 1)[0] if " frame-" in out else out
        if core.norm_err(mo) != core.norm_err(impl):
            ctx.mismatch("builders", {"kind": kind}, impl[:200], out[:200])
        elif impl.startswith("ok") and kind in ("rr", "unit", "rr-raw", "unit-raw") and not out.endswith("frame-ok cpf-ok") and "N" not in lines[0]:
            pass
    # ---- every frame of driver histories (healthy and faulty)
    tlines, tpend = [], []
    for i in range(ctx.budget(250, 3000)):
        scn, policy, generic = tr.gen_base(rng)
        ops = tr.gen_history(rng, ctx.budget(4, 6))
        faults = tr.random_faults(rng, len(ops))
        path = rng.choice(["10.0.0.1", "10.0.0.1/bp/1", "10.0.0.1/bp/1/enet/10.11.12.13/bp/0"])
        rnd = [bytes(rng.getrandbits(8) for _ in range(8)) for _ in range(8)]
        impl = tr.run_case(ctx, model, tlines, tpend, "history-frames", "C11", scn, path, rng.random() < 0.5, faults, rnd, ops)
        ctx.count("frames-checked", len(impl["frames"]))
        if i < 2:
            ctx.sample({"ops": [tr.op_sx(o)[:100] for o in ops], "frames": [f.hex()[:120] for f in impl["frames"][:4]]})
    # ---- a target that refuses RegisterSession but leaves a value in the handle field of its refusal (a device is free to
    # echo anything there): no later frame may carry that value as a session handle — it was never granted
    import struct as _st
    for i in range(ctx.budget(12, 120)):
        scn, policy, generic = tr.gen_base(rng, policy=(False, True, True))
        handle = rng.choice([0x1234ABCD, 1, 0xFFFFFFFF, 0x80000000, rng.getrandbits(32) or 7])

        def flt(reply, handle=handle):
            if len(reply) >= 24 and reply[:2] == b"\x65\x00" and _st.unpack_from("<I", reply, 8)[0] != 0:
                out = bytearray(reply)
                _st.pack_into("<I", out, 4, handle)
                return bytes(out)
            return reply
        ops = [("open",)] + [tr.gen_gm(rng, connected=rng.random() < 0.3) for _ in range(rng.choice([1, 2]))] + [("close",), ("open",), ("listid",)]
        path = rng.choice(["10.0.0.1", "10.0.0.1/bp/1"])
        rnd = [bytes(rng.getrandbits(8) for _ in range(8)) for _ in range(8)]
        impl = tr.run_case(ctx, model, tlines, tpend, "refused-register-with-handle", "C11", scn, path, rng.random() < 0.5, {}, rnd, ops,
                           extra_case={"handle_in_the_refusal": handle}, reply_filter=flt)
        ctx.count("frames-checked", len(impl["frames"]))
    # ---- every single-fault position of a fixed history with a close and a re-open in it (send raises / message lost /
    # receive raises): whatever the fault left behind, every later frame carries only handles granted on ITS connection
    rep = [("open",), tr.gen_gm(rng, connected=True), tr.gen_gm(rng, connected=False), ("close",), ("open",), tr.gen_gm(rng, connected=True),
           ("listid",), ("close",)]
    for policy in [(True, True, True), (True, False, True)]:
        scn, _, _ = tr.gen_base(rng, policy=policy, generic=(0, (), b"\x01\x02"))
        for k in range(0, 14):
            for kind, how in (("send", "raise"), ("send", "drop"), ("recv", "raise")):
                impl = tr.run_case(ctx, model, tlines, tpend, "single-fault-frames", "C11", scn, "10.0.0.1/bp/0", False, {(kind, k): how},
                                   [b"\x22" * 8, b"\x33" * 8], rep)
                ctx.count("frames-checked", len(impl["frames"]))
    tr.flush(ctx, model, tlines, tpend)
    # ---- LogixDriver sessions with transfers larger than the connection (fragmented reads and writes, multi-service
    # packets): every write to the socket is exactly ONE well-formed frame
    import struct as _st2
    from props.c04 import sized_project
    from props import logix as lx
    for i in range(ctx.budget(6, 40)):
        large = rng.random() < 0.6
        size = rng.choice([5000, 9000, 12100]) if large else rng.choice([700, 1500])
        p = sized_project(rng, [(size, "big"), (30, "o1"), (30, "o2")])
        sess = lx.Session(model, p, conn_large=large)
        if sess.open_error is None:
            try:
                core.with_budget(60, sess.d.write, ("big{%d}" % size, [rng.randrange(-128, 128) for _ in range(size)]))
                core.with_budget(60, sess.d.read, "big{%d}" % size)
                core.with_budget(60, sess.d.write, ("big{%d}" % size, [1] * size), ("o1{4}", [1, 2, 3, 4]))
                core.with_budget(60, sess.d.read, "o1{30}", "o2{30}", "big{%d}" % size)
            except BaseException as e:  # noqa
                if isinstance(e, (KeyboardInterrupt, SystemExit)):
                    raise
        ctx.case("logix-session-frames", ("lsf", i, size, large))
        ctx.count("frames-checked", len(sess.sock.frames))
        granted_s, granted_c = set(), set()
        for r in sess.sock.replies:
            if r is not None and len(r) >= 24:
                cmd, ln, se, status = _st2.unpack_from("<HHII", r)
                if cmd == 0x65 and status == 0:
                    granted_s.add(se)
                if cmd == 0x6F and len(r) >= 48 and r[40] in (0xD4, 0xDB) and r[42] == 0:
                    granted_c.add(_st2.unpack_from("<I", r, 44)[0])
        for k, f in enumerate(sess.sock.frames):
            why = tr.check_frame(f, granted_s, granted_c)
            if why:
                ctx.violation("malformed-frame:" + why.split(" ")[0], {"index": i, "tag_bytes": size, "connection": 4000 if large else 500,
                              "frame_index": k, "frame": f.hex()[:200], "frame_bytes": len(f)}, why)
                break
        sess.close()
    # ---- a long connected history across the wrap of the sequence counter
    tr.run_c17(ctx, model, focus="C11")


def replay(ctx, model, data):
    c = core.Ctx("C11", data.get("tier", "quick"), data.get("seed", 0))
    run(c, model)
    return any(v["sig"] == data["sig"] for v in c.violations)
