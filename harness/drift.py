#!/venv/bin/python
"""Drift detection (DESIGN.md §5.3): fingerprints of the source functions/classes each property is anchored in.

A changed fingerprint is NOT an alarm.  It means the code the hand-written model mirrors has moved, so the check
spends the thorough budget on its correspondence streams for that run and records `source_drift` in the evidence.

    python harness/drift.py --update     regenerate harness/fingerprints.lock from the current /repo
    python harness/drift.py [Cxx]        show anchors whose fingerprint differs from the lock
"""
import ast
import hashlib
import json
import os
import re
import sys

HERE = os.path.dirname(os.path.abspath(__file__))
VERIF = os.path.dirname(HERE)
REPO = os.environ.get("VERIF_REPO", "/repo")
LOCK = os.path.join(HERE, "fingerprints.lock")
NOISE = {"and", "subclasses", "try", "except", "blocks", "derived", "time", "date", "types", "packets", "py"}


def _find_file(name):
    name = name.strip()
    for root, _, files in os.walk(os.path.join(REPO, "pycomm3")):
        for f in files:
            rel = os.path.relpath(os.path.join(root, f), os.path.join(REPO, "pycomm3"))
            if rel == name or f == os.path.basename(name) and rel.endswith(name):
                return os.path.join(root, f)
    return None


def _strip_docstrings(node):
    for n in ast.walk(node):
        if isinstance(n, (ast.FunctionDef, ast.AsyncFunctionDef, ast.ClassDef, ast.Module)):
            if n.body and isinstance(n.body[0], ast.Expr) and isinstance(getattr(n.body[0], "value", None), ast.Constant) \
                    and isinstance(n.body[0].value.value, str):
                n.body = n.body[1:] or [ast.Pass()]
    return node


def _lookup(tree, dotted):
    parts = dotted.split(".")
    scope = [tree]
    node = None
    for i, p in enumerate(parts):
        found = None
        for s in scope:
            for n in ast.walk(s):
                if isinstance(n, (ast.FunctionDef, ast.AsyncFunctionDef, ast.ClassDef)) and (n.name == p or (len(p) > 5 and n.name.startswith(p))):
                    found = n
                    break
                if isinstance(n, ast.Assign) and any(isinstance(t, ast.Name) and t.id == p for t in n.targets):
                    found = n
                    break
            if found:
                break
        if found is None:
            return None
        node, scope = found, [found]
    return node


def anchors(prop):
    """[(label, file path, dotted name or None)] for one property, from properties.jsonl"""
    out = []
    for line in open(os.path.join(VERIF, "properties.jsonl")):
        p = json.loads(line)
        if p["id"] != prop:
            continue
        files = list(p["anchors"].get("files", []))
        for m in p["anchors"].get("mechanism", []):
            for part in m["where"].split(";"):
                if ":" not in part:
                    continue
                fpart, names = part.split(":", 1)
                fnames = [f.strip() for f in re.split(r"\s+/\s+", fpart) if f.strip().endswith(".py")]
                names = re.sub(r"\([^)]*\)", " ", names)
                toks = []
                for t in re.findall(r"[A-Za-z_][A-Za-z_0-9.]*(?:/[A-Za-z_][A-Za-z_0-9]*)*", names):
                    if t in NOISE or ".." in t:
                        continue
                    if "/" in t:                      # X.encode/decode, __enter__/__exit__, _send/_receive
                        head, *alts = t.split("/")
                        base = head.rsplit(".", 1)[0] + "." if "." in head else ""
                        toks.append(head)
                        toks += [base + a for a in alts]
                    else:
                        toks.append(t)
                for fn in fnames:
                    path = _find_file(fn)
                    if path is None:
                        continue
                    if not toks:
                        out.append((fn, path, None))
                    for t in toks:
                        out.append(("%s:%s" % (fn, t), path, t))
        for f in files:
            path = _find_file(f.replace("pycomm3/", ""))
            if path is not None:
                out.append((f + " (whole file)", path, None))
    seen, uniq = set(), []
    for a in out:
        if a[0] not in seen:
            seen.add(a[0])
            uniq.append(a)
    return uniq


_TREES = {}


def fingerprint(path, dotted):
    if path not in _TREES:
        _TREES[path] = ast.parse(open(path).read())
    tree = _TREES[path]
    node = _lookup(tree, dotted) if dotted else tree
    if node is None:
        node = tree            # the anchor text names no single definition: fall back to the whole file
    node = _strip_docstrings(ast.parse(ast.unparse(node)))
    return hashlib.sha1(ast.dump(node).encode()).hexdigest()[:16]


def current(prop):
    return {label: fingerprint(path, dotted) for label, path, dotted in anchors(prop)}


def changed(prop):
    """labels of anchors whose fingerprint differs from the lock (or that the lock does not know)"""
    try:
        lock = json.load(open(LOCK)).get(prop, {})
    except (OSError, ValueError):
        return ["no fingerprints.lock"]
    now = current(prop)
    whole = [k for k in now if k.endswith("(whole file)")]
    fine = [k for k in now if not k.endswith("(whole file)")]
    diff = [k for k in fine if lock.get(k) != now[k]]
    # whole-file fingerprints only matter for files without any resolvable finer anchor
    for k in whole:
        f = k.split(" ")[0].replace("pycomm3/", "")
        if not any(x.startswith(os.path.basename(f) + ":") or x.startswith(f + ":") for x in fine) and lock.get(k) != now[k]:
            diff.append(k)
    return diff


def main():
    props = ["C%02d" % i for i in range(1, 20)]
    if "--update" in sys.argv:
        json.dump({p: current(p) for p in props}, open(LOCK, "w"), indent=1, sort_keys=True)
        print("wrote", LOCK)
        return
    for p in ([a for a in sys.argv[1:] if a.startswith("C")] or props):
        print(p, changed(p) or "unchanged")


if __name__ == "__main__":
    main()
