"""development helper: summarise the last evidence + replays of a property"""
import json, glob, collections, sys
prop = sys.argv[1]
ev = json.load(open('/verif/evidence/%s.json' % prop))
c = ev['coverage']
for k, v in c['correspondence_streams'].items():
    print(k, v)
for m in c['correspondence_mismatches'][:int(sys.argv[2]) if len(sys.argv) > 2 else 10]:
    print('MISMATCH', m['stream'], str(m['case'])[:200], '| impl:', str(m['impl'])[:100], '| model:', str(m['model'])[:100])
sigs = collections.Counter(); ex = {}
import os, time
for f in glob.glob('/verif/replays/%s-*.json' % prop):
    if time.time() - os.path.getmtime(f) > 120: continue
    d = json.load(open(f))
    if 'sig' in d:
        sigs[d['sig']] += 1; ex[d['sig']] = (d['input'], d['detail'])
    else:
        print('NOINPUT', str(d.get('broken'))[:300])
for s in sorted(sigs):
    print('VIOL', s, '|', str(ex[s][1])[:120], '|', str(ex[s][0])[:200])
print({k: v for k, v in c['input_distribution'].items() if k.startswith('observed') or k.startswith('unmodelled')})
