#!/bin/sh
# ev.sh name prop src others...
cd /verif
name=$1; prop=$2; src=$3; shift 3
echo "=== $name"
sh harness/seed_eval.sh "$name" "$prop" "$src" "$@" 2>&1 | grep -v WARNING | grep -E "demo_|tests_with|check C|VIOLATION|abort|does not apply" | cut -c1-220
