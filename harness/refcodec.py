"""Independent reference codec written from CIP Vol 1 App. C / Logix data-access manual.
Used as the C07 oracle. Works on canonical values (tygen.gen_valid)."""
import struct
from tygen import INTK


def enc_int(k, v):
    size, signed = INTK[k]
    return int(v).to_bytes(size, "little", signed=signed)


def ref_encode(d, c):
    k = d[0]
    if k == "bool":
        return b"\xff" if c else b"\x00"
    if k == "int":
        return enc_int(d[1], c)
    if k == "real":
        return struct.pack("<f", c)
    if k == "lreal":
        return struct.pack("<d", c)
    if k == "dt":
        return enc_int("udint", c[0]) + enc_int("uint", c[1])
    if k == "str":
        chars = c.encode("latin-1" if d[2] == "latin1" else "utf-16-le")
        return enc_int(d[1], len(c)) + chars
    if k == "stringn":
        codec = {1: "utf-8", 2: "utf-16-le", 4: "utf-32-le"}[d[1]]
        return enc_int("uint", d[1]) + enc_int("uint", len(c)) + c.encode(codec)
    if k == "stringi1":
        return ref_encode(("stringi",), [c])
    if k == "stringi":
        out = bytes([len(c)])
        for (s, code, lang, cs) in c:
            sub = {0xD0: ("str", "uint", "latin1"), 0xD5: ("str", "uint", "utf16"),
                   0xD9: ("stringn", 1), 0xDA: ("str", "usint", "latin1")}[code]
            out += lang.encode("ascii") + bytes([code]) + enc_int("uint", cs) + ref_encode(sub, s)
        return out
    if k == "bits":
        size = INTK[d[1]][0]
        out = bytearray(size)
        for i, b in enumerate(c):
            if b:
                out[i // 8] |= 1 << (i % 8)
        return bytes(out)
    if k == "nbytes":
        return bytes(c)
    if k == "arr":
        if d[2][0] == "bits":
            n = 8 * INTK[d[2][1]][0]
            return b"".join(ref_encode(d[2], c[i:i + n]) for i in range(0, len(c), n))
        return b"".join(ref_encode(d[2], x) for x in c)
    if k == "struct":
        return b"".join(ref_encode(md, c[key]) for key, (mn, md, inst) in zip(c.keys(), d[1]))
    if k == "fstr":
        chars = c.encode("latin-1")
        return enc_int(d[2], len(c)) + chars + b"\x00" * (d[1] - len(chars))
    if k == "stag":
        buf = bytearray(d[1])
        for (mn, md, off) in d[2]:
            if mn in d[4]:
                continue
            e = ref_encode(md, c[mn])
            buf[off:off + len(e)] = e
        for (n, o, b) in d[3]:
            if c[n]:
                buf[o] |= 1 << b
            else:
                buf[o] &= 0xFF ^ (1 << b)
        return bytes(buf)
    if k == "ip":
        return bytes(int(x) for x in c.split("."))
    raise ValueError(d)


def ref_decode_leaf(d, bs):
    """reference decode of a fixed-width leaf from exactly its width of bytes"""
    k = d[0]
    if k == "bool":
        return bs != b"\x00"
    if k == "int":
        size, signed = INTK[d[1]]
        return int.from_bytes(bs, "little", signed=signed)
    if k == "real":
        return struct.unpack("<f", bs)[0]
    if k == "lreal":
        return struct.unpack("<d", bs)[0]
    if k == "bits":
        n = int.from_bytes(bs, "little")
        return [bool(n >> i & 1) for i in range(8 * len(bs))]
    if k == "dt":
        return (int.from_bytes(bs[:4], "little"), int.from_bytes(bs[4:6], "little"))
    if k == "ip":
        return ".".join(str(b) for b in bs)
    raise ValueError(d)
