#!/bin/sh
# development helper: seed_eval.sh <name> <PROP> <out dir of the sub-agent> [other props to also run]
# copies the seeded change to /verif/seeded/<name>/, confirms the demo on scratch worktrees, applies the patch to /repo,
# runs the quick check(s), and ALWAYS restores /repo.
set -u
NAME="$1"; PROP="$2"; SRC="$3"; shift 3
DEST=/verif/seeded/$NAME
mkdir -p "$DEST"
cp "$SRC/patch.diff" "$SRC/demo.py" "$SRC/meta.json" "$DEST/" 2>/dev/null
cd /repo || exit 2
if ! git diff --quiet; then echo "repo dirty, abort"; exit 2; fi
# 1. confirm: demo passes on the clean tree, tests pass with the patch, demo fails with the patch (scratch worktree)
WT=/tmp/seedchk_$NAME
git worktree add -q --detach "$WT" HEAD
( cd "$WT" && /venv/bin/python "$DEST/demo.py" "$WT" >/dev/null 2>&1; echo "demo_clean_exit=$?" ) > "$DEST/confirm.txt"
( cd "$WT" && git apply "$DEST/patch.diff" && /venv/bin/python -m pytest -q -p no:cacheprovider tests/offline 2>&1 | tail -1 | sed 's/^/tests_with_patch: /' ) >> "$DEST/confirm.txt"
( cd "$WT" && /venv/bin/python "$DEST/demo.py" "$WT" >/dev/null 2>&1; echo "demo_patched_exit=$?" ) >> "$DEST/confirm.txt"
git worktree remove --force "$WT"
cat "$DEST/confirm.txt"
# 2. run our checks against the patched /repo
git apply "$DEST/patch.diff" || { echo "patch does not apply to /repo"; exit 2; }
cd /verif
for P in "$PROP" "$@"; do
  ./check "$P" --tier quick > "$DEST/check_$P.log" 2>&1
  echo "check $P exit=$? : $(grep -c '^VIOLATION' "$DEST/check_$P.log") VIOLATION lines; $(tail -1 "$DEST/check_$P.log" | cut -c1-200)"
  grep '^VIOLATION' "$DEST/check_$P.log" | head -3
done
git -C /repo checkout -- .
git -C /repo status --short | head -3
# restore generated files / evidence for the clean tree
/venv/bin/python /verif/harness/extract.py >/dev/null 2>&1
