"""S-expression rendering/parsing for the pymodel line protocol."""
import struct


def name(s):
    """str -> (s cp cp ...)"""
    return "(s" + "".join(" %d" % ord(c) for c in s) + ")"


def hexb(b):
    b = bytes(b)
    return "(b %s)" % b.hex() if b else "(b)"


def val(v):
    """Python value -> sexp text (the PyVal universe of the model)."""
    if v is None:
        return "N"
    if v is True:
        return "T"
    if v is False:
        return "F"
    if isinstance(v, int):
        return "(i %d)" % v
    if isinstance(v, float):
        return "(f %d)" % struct.unpack("<Q", struct.pack("<d", v))[0]
    if isinstance(v, str):
        return name(v)
    if isinstance(v, (bytes, bytearray)):
        return hexb(v)
    if isinstance(v, list):
        return "(l" + "".join(" " + val(x) for x in v) + ")"
    if isinstance(v, tuple):
        return "(t" + "".join(" " + val(x) for x in v) + ")"
    if isinstance(v, dict):
        for k in v:
            if not isinstance(k, str):
                raise Unrenderable("non-str dict key %r" % (k,))
        return "(d" + "".join(" (%s %s)" % (name(k), val(x)) for k, x in v.items()) + ")"
    raise Unrenderable(repr(type(v)))


class Unrenderable(Exception):
    pass


def canon_float_bits(x):
    b = struct.unpack("<Q", struct.pack("<d", x))[0]
    if x != x:
        return (b >> 63 << 63) | 0x7FF8000000000000  # NaNs compared as a class (sign kept)
    return b


def parse(text):
    """sexp text -> nested python lists / atom strings; returns list of top-level items"""
    toks = text.replace("(", " ( ").replace(")", " ) ").split()
    pos = 0

    def one():
        nonlocal pos
        t = toks[pos]
        pos += 1
        if t == "(":
            out = []
            while toks[pos] != ")":
                out.append(one())
            pos += 1
            return out
        return t

    items = []
    while pos < len(toks):
        items.append(one())
    return items


def to_py(x):
    """parsed PyVal sexp -> python value (floats stay as ('f', bits))"""
    if x == "N":
        return None
    if x == "T":
        return True
    if x == "F":
        return False
    tag = x[0]
    if tag == "i":
        return int(x[1])
    if tag == "f":
        return ("f", int(x[1]))
    if tag == "s":
        return "".join(chr(int(c)) for c in x[1:])
    if tag == "b":
        return bytes.fromhex(x[1]) if len(x) > 1 else b""
    if tag == "l":
        return [to_py(y) for y in x[1:]]
    if tag == "t":
        return tuple(to_py(y) for y in x[1:])
    if tag == "d":
        return {to_py(k): to_py(v) for k, v in x[1:]}
    raise ValueError(x)


def canon(v):
    """python value -> comparable canonical form (floats as ('f', bits), NaN class-collapsed;
    dicts as ordered item tuples because insertion order is API-visible)"""
    if isinstance(v, float):
        return ("f", canon_float_bits(v))
    if isinstance(v, tuple) and len(v) == 2 and v[0] == "f" and isinstance(v[1], int):
        b = v[1]
        if (b >> 52) & 0x7FF == 0x7FF and b & ((1 << 52) - 1):
            b = (b >> 63 << 63) | 0x7FF8000000000000
        return ("f", b)
    if isinstance(v, bool) or v is None or isinstance(v, (int, str)):
        return (type(v).__name__, v)
    if isinstance(v, (bytes, bytearray)):
        return ("bytes", bytes(v))
    if isinstance(v, list):
        return ("list", tuple(canon(x) for x in v))
    if isinstance(v, tuple):
        return ("tuple", tuple(canon(x) for x in v))
    if isinstance(v, dict):
        return ("dict", tuple((canon(k), canon(x)) for k, x in v.items()))
    return ("other", repr(type(v)))
